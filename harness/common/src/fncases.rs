//! D3: direct-API cases (filled in later)
pub fn main_fn(_args: &[String]) {
    eprintln!("not implemented yet");
    std::process::exit(2);
}
