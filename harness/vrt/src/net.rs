//! in-memory transport: listener with a backlog, bidirectional streams made of two pipes.
//!
//! A client `write` enqueues exactly one segment; a `read` returns at most the remainder of the
//! first segment and never merges segments (DESIGN.md §4.3).

use crate::{cur, cur_or_panic, new_obj, Kind};
use std::collections::VecDeque;
use std::fmt;
use std::io::{self, ErrorKind};
use std::net::Shutdown;
use std::sync::{Arc, Mutex as SMutex, Weak};

#[derive(Default)]
struct Pipe {
    segs: VecDeque<Vec<u8>>,
    /// writer closed its end: reader sees EOF after draining
    eof: bool,
    /// reader shut its end down
    rd_closed: bool,
    /// bytes currently buffered
    buffered: usize,
    /// total bytes ever written / read
    written: usize,
    consumed: usize,
}

struct StreamInner {
    id: usize,
    /// client -> server
    c2s: SMutex<Pipe>,
    /// server -> client
    s2c: SMutex<Pipe>,
    flags: SMutex<Flags>,
}

#[derive(Default, Clone)]
struct Flags {
    /// client sent RST
    reset: bool,
    /// the client is gone for good (close): server writes fail after the first one
    client_gone: bool,
    gone_writes: u32,
    /// capacity of the server->client pipe (None = unbounded); writes block when it is full
    window: Option<usize>,
    /// names of library threads that ever read from the server side
    server_readers: Vec<String>,
    server_writers: Vec<String>,
}

#[derive(Clone, Copy, Debug, PartialEq, Eq)]
pub enum Side {
    Client,
    Server,
}

pub struct MemStream {
    inner: Arc<StreamInner>,
    side: Side,
}

impl fmt::Debug for MemStream {
    fn fmt(&self, f: &mut fmt::Formatter<'_>) -> fmt::Result {
        write!(f, "MemStream({}, {:?})", self.inner.id, self.side)
    }
}

fn wake(id: usize) {
    if let Some((rt, _)) = cur() {
        rt.wake_obj(id);
    }
}

impl MemStream {
    fn pair() -> (MemStream, MemStream) {
        let inner = Arc::new(StreamInner {
            id: new_obj(),
            c2s: SMutex::new(Pipe::default()),
            s2c: SMutex::new(Pipe::default()),
            flags: SMutex::new(Flags::default()),
        });
        (
            MemStream {
                inner: inner.clone(),
                side: Side::Client,
            },
            MemStream {
                inner,
                side: Side::Server,
            },
        )
    }

    pub fn id(&self) -> usize {
        self.inner.id
    }

    pub fn try_clone(&self) -> io::Result<MemStream> {
        Ok(MemStream {
            inner: self.inner.clone(),
            side: self.side,
        })
    }

    fn rx(&self) -> &SMutex<Pipe> {
        match self.side {
            Side::Client => &self.inner.s2c,
            Side::Server => &self.inner.c2s,
        }
    }

    fn tx(&self) -> &SMutex<Pipe> {
        match self.side {
            Side::Client => &self.inner.c2s,
            Side::Server => &self.inner.s2c,
        }
    }

    pub fn read(&self, buf: &mut [u8]) -> io::Result<usize> {
        let (rt, me) = cur_or_panic("MemStream::read");
        rt.yield_now(me);
        if self.side == Side::Server && rt.thread_kind(me) == Kind::Lib {
            let n = rt.thread_name(me);
            let mut f = self.inner.flags.lock().unwrap();
            if !f.server_readers.contains(&n) {
                f.server_readers.push(n);
            }
        }
        loop {
            {
                let f = self.inner.flags.lock().unwrap();
                if f.reset && self.side == Side::Server {
                    return Err(io::Error::new(ErrorKind::ConnectionReset, "connection reset by peer"));
                }
            }
            let mut p = self.rx().lock().unwrap();
            if p.rd_closed {
                return Ok(0);
            }
            if buf.is_empty() {
                return Ok(0);
            }
            if let Some(front) = p.segs.front_mut() {
                let n = front.len().min(buf.len());
                buf[..n].copy_from_slice(&front[..n]);
                if n == front.len() {
                    p.segs.pop_front();
                } else {
                    front.drain(..n);
                }
                p.buffered -= n;
                p.consumed += n;
                drop(p);
                // a writer may be waiting for window space
                wake(self.inner.id);
                return Ok(n);
            }
            if p.eof {
                return Ok(0);
            }
            drop(p);
            rt.block(me, self.inner.id, "net-read", None);
        }
    }

    /// one call = one segment
    pub fn write(&self, buf: &[u8]) -> io::Result<usize> {
        let (rt, me) = cur_or_panic("MemStream::write");
        rt.yield_now(me);
        if buf.is_empty() {
            return Ok(0);
        }
        if self.side == Side::Server {
            let n = rt.thread_name(me);
            let mut f = self.inner.flags.lock().unwrap();
            if !f.server_writers.contains(&n) {
                f.server_writers.push(n);
            }
        }
        loop {
            if self.side == Side::Server {
                let mut f = self.inner.flags.lock().unwrap();
                if f.reset {
                    f.gone_writes += 1;
                    return Err(if f.gone_writes == 1 {
                        io::Error::new(ErrorKind::ConnectionReset, "connection reset by peer")
                    } else {
                        io::Error::new(ErrorKind::BrokenPipe, "broken pipe")
                    });
                }
                if f.client_gone {
                    f.gone_writes += 1;
                    if f.gone_writes == 1 {
                        // the first write after the peer closed is accepted by the kernel
                        return Ok(buf.len());
                    }
                    return Err(io::Error::new(ErrorKind::BrokenPipe, "broken pipe"));
                }
            }
            let mut p = self.tx().lock().unwrap();
            if p.eof {
                return Err(io::Error::new(ErrorKind::BrokenPipe, "write after shutdown"));
            }
            let window = if self.side == Side::Server {
                self.inner.flags.lock().unwrap().window
            } else {
                None
            };
            let room = match window {
                Some(w) => w.saturating_sub(p.buffered),
                None => buf.len(),
            };
            if room == 0 {
                drop(p);
                rt.block(me, self.inner.id, "net-write", None);
                continue;
            }
            let n = room.min(buf.len());
            p.segs.push_back(buf[..n].to_vec());
            p.buffered += n;
            p.written += n;
            drop(p);
            wake(self.inner.id);
            return Ok(n);
        }
    }

    pub fn flush(&self) -> io::Result<()> {
        Ok(())
    }

    pub fn shutdown(&self, how: Shutdown) -> io::Result<()> {
        if let Shutdown::Write | Shutdown::Both = how {
            self.tx().lock().unwrap().eof = true;
        }
        if let Shutdown::Read | Shutdown::Both = how {
            self.rx().lock().unwrap().rd_closed = true;
        }
        wake(self.inner.id);
        Ok(())
    }

    // ---- client-side fault injection (harness) ----

    /// RST: subsequent server reads fail with ConnectionReset, writes with ConnectionReset/BrokenPipe
    pub fn reset(&self) {
        {
            let mut f = self.inner.flags.lock().unwrap();
            f.reset = true;
        }
        {
            let mut p = self.inner.c2s.lock().unwrap();
            p.segs.clear();
            p.buffered = 0;
        }
        wake(self.inner.id);
    }

    /// orderly full close by the client: FIN towards the server, and server writes start failing
    pub fn close(&self) {
        self.inner.c2s.lock().unwrap().eof = true;
        self.inner.flags.lock().unwrap().client_gone = true;
        {
            let mut p = self.inner.s2c.lock().unwrap();
            p.rd_closed = true;
        }
        wake(self.inner.id);
    }

    /// bound the server->client pipe (a client that does not read)
    pub fn set_window(&self, w: Option<usize>) {
        self.inner.flags.lock().unwrap().window = w;
        wake(self.inner.id);
    }

    pub fn server_reader_threads(&self) -> Vec<String> {
        self.inner.flags.lock().unwrap().server_readers.clone()
    }

    pub fn server_writer_threads(&self) -> Vec<String> {
        self.inner.flags.lock().unwrap().server_writers.clone()
    }

    /// (bytes the server has consumed from the client, bytes the client has not yet read)
    pub fn counters(&self) -> (usize, usize) {
        let c = self.inner.c2s.lock().unwrap().consumed;
        let b = self.inner.s2c.lock().unwrap().buffered;
        (c, b)
    }

    /// true once the server has shut down its sending side
    pub fn server_eof(&self) -> bool {
        self.inner.s2c.lock().unwrap().eof
    }

    /// non-blocking: everything currently readable (client side), without a scheduling point
    pub fn drain_available(&self) -> (Vec<u8>, bool) {
        let mut p = self.rx().lock().unwrap();
        let mut out = Vec::new();
        while let Some(s) = p.segs.pop_front() {
            out.extend_from_slice(&s);
        }
        p.consumed += out.len();
        p.buffered = 0;
        let eof = p.eof;
        drop(p);
        wake(self.inner.id);
        (out, eof)
    }
}

impl io::Read for MemStream {
    fn read(&mut self, buf: &mut [u8]) -> io::Result<usize> {
        MemStream::read(self, buf)
    }
}

impl io::Write for MemStream {
    fn write(&mut self, buf: &[u8]) -> io::Result<usize> {
        MemStream::write(self, buf)
    }
    fn flush(&mut self) -> io::Result<()> {
        Ok(())
    }
}

struct ListenerInner {
    id: usize,
    name: String,
    backlog: SMutex<VecDeque<MemStream>>,
    accepted: SMutex<usize>,
}

pub struct MemListener {
    inner: Arc<ListenerInner>,
}

#[derive(Clone)]
pub struct MemAddr {
    name: String,
    l: Weak<ListenerInner>,
}

impl fmt::Debug for MemAddr {
    fn fmt(&self, f: &mut fmt::Formatter<'_>) -> fmt::Result {
        write!(f, "mem:{}", self.name)
    }
}

impl fmt::Display for MemAddr {
    fn fmt(&self, f: &mut fmt::Formatter<'_>) -> fmt::Result {
        write!(f, "mem:{}", self.name)
    }
}

impl MemListener {
    pub fn bind(name: &str) -> MemListener {
        MemListener {
            inner: Arc::new(ListenerInner {
                id: new_obj(),
                name: name.to_string(),
                backlog: SMutex::new(VecDeque::new()),
                accepted: SMutex::new(0),
            }),
        }
    }

    pub fn local_addr(&self) -> io::Result<MemAddr> {
        Ok(MemAddr {
            name: self.inner.name.clone(),
            l: Arc::downgrade(&self.inner),
        })
    }

    pub fn accept(&self) -> io::Result<(MemStream, ())> {
        let (rt, me) = cur_or_panic("MemListener::accept");
        rt.yield_now(me);
        loop {
            if let Some(s) = self.inner.backlog.lock().unwrap().pop_front() {
                *self.inner.accepted.lock().unwrap() += 1;
                return Ok((s, ()));
            }
            rt.block(me, self.inner.id, "accept", None);
        }
    }
}

impl MemAddr {
    /// the client's end of a new connection; ConnectionRefused once the listener is gone
    pub fn connect(&self) -> io::Result<MemStream> {
        match self.l.upgrade() {
            None => {
                // (marker for mech/ServerLife: the attempt is refused at this instant)
                crate::mark("net.connect", &[("ok", 0)]);
                Err(io::Error::new(ErrorKind::ConnectionRefused, "connection refused"))
            }
            Some(l) => {
                let (c, s) = MemStream::pair();
                l.backlog.lock().unwrap().push_back(s);
                // (marker for mech/ServerLife: the connection enters the accept queue at this instant)
                crate::mark("net.connect", &[("ok", 1)]);
                wake(l.id);
                // scheduling point: the accepting thread may get going before connect() returns to its caller
                if let Some((rt, me)) = crate::cur() {
                    rt.yield_now(me);
                }
                Ok(c)
            }
        }
    }

    pub fn listening(&self) -> bool {
        self.l.upgrade().is_some()
    }
}
