"""Scenario families, one per property (DESIGN.md §5). Each returns a list of concrete scenarios.
Seeded: the same (tier, seed) always gives the same list."""
import itertools, random
from scn import *

def _rng(prop, seed):
    return random.Random("%s/%d" % (prop, seed))

def _sample(rng, items, k):
    items = list(items)
    if len(items) <= k:
        return items
    return rng.sample(items, k)

# ------------------------------------------------------------------------------------------------
# receivers

def R_recv(mode="inline"):
    return serve("recv", mode)

def R_iter(mode="inline"):
    return serve("iter", mode)

def R_timed_once(T, mode="inline"):
    return {"prog": [{"op": "recv", "kind": "timeout", "ms": T}, {"op": "handle", "sel": "all", "mode": mode}]}

def R_timed_loop(T, n=2, mode="inline"):
    return serve("timeout", mode, ms=T, max_empty=n)

def R_try_loop(n=3, mode="inline"):
    return serve("try", mode, max_empty=n)

def R_try_then_recv(mode="inline"):
    return {"prog": [{"op": "recv", "kind": "try"}, {"op": "handle", "sel": "all", "mode": mode},
                     {"op": "serve", "kind": "recv", "mode": mode, "max_empty": 1, "ms": 0}]}

def unblocker(at_ns, n=1):
    prog = []
    if at_ns > 0:
        prog.append({"op": "sleep", "ns": at_ns})
    for _ in range(n):
        prog.append({"op": "unblock"})
    return {"prog": prog}

def simple_conn(c, nreq, at_ns=0, gap_ns=0, plan=None, version="1.1"):
    msgs = [Msg(plan=plan or respond(200, 4), version=version, conn=("keep-alive" if version == "1.0" else None)) for _ in range(nreq)]
    d, j, n = conn(msgs, c)
    prog = []
    if at_ns > 0:
        prog.append({"op": "sleep", "ns": at_ns})
    if gap_ns == 0 or nreq == 1:
        prog.append({"op": "send", "to": n})
    else:
        for m in range(nreq):
            prog.append({"op": "send", "to": d["msgs"][m]["be"]})
            prog.append({"op": "sleep", "ns": gap_ns})
    d["prog"] = prog
    return d, j, n

# ------------------------------------------------------------------------------------------------
# C07 / C17: the request queue

def fam_c07(tier, seed):
    rng = _rng("C07", seed)
    T = 20
    offs = [0, T * MS // 2, T * MS - 300_000, T * MS - 800_000, T * MS - 1_500_000, T * MS, T * MS + 500_000]
    recvs = {
        "recv": lambda: R_recv(),
        "iter": lambda: R_iter(),
        "timed1": lambda: R_timed_once(T),
        "timedloop": lambda: R_timed_loop(T),
        "try": lambda: R_try_loop(),
        "tryrecv": lambda: R_try_then_recv(),
    }
    scs = []
    k = 0
    combos = []
    for n in (1, 2, 3):
        combos += list(itertools.combinations_with_replacement(sorted(recvs), n))
    # every receiver combination with one late request; the timing product is sampled
    plans = []
    for combo in combos:
        for off in offs:
            plans.append((combo, [(off, 1)]))
    for combo in _sample(rng, combos, 12 if tier == "quick" else len(combos)):
        for o1, o2 in _sample(rng, list(itertools.product(offs, offs)), 4 if tier == "quick" else 12):
            plans.append((combo, [(o1, 1), (o2, rng.choice([1, 2]))]))
        plans.append((combo, [(0, 3)]))
        plans.append((combo, [(offs[2], 1), (offs[2], 1), (offs[3], 1)]))
    if tier == "quick":
        must = [p for p in plans if p[0] == ("recv", "timed1") and len(p[1]) == 1]
        plans = must + _sample(rng, plans, 260)
    for combo, conns in plans:
        apps = [recvs[r]() for r in combo]
        cc = [simple_conn(c, nreq, at_ns=off, gap_ns=rng.choice([0, 0, 400_000])) for c, (off, nreq) in enumerate(conns)]
        sc = scenario("C07-%04d" % k, "C07", cc, apps, horizon_ms=4 * T + 20)
        sc["tags"] = ["queue", "recv:" + "+".join(combo)]
        if any(r.startswith("timed") for r in combo) and any(r in ("recv", "iter", "tryrecv") for r in combo):
            sc["tags"].append("timed-with-blocking-receiver")
        scs.append(sc)
        k += 1
    return scs

def fam_c17(tier, seed):
    rng = _rng("C17", seed)
    T = 20
    times = [0, 200_000, T * MS // 2, T * MS - 300_000, T * MS - 1_200_000, T * MS + 1_000_000, 2 * T * MS + 2_000_000]
    recvs = {
        "recv": lambda: R_recv(),
        "iter": lambda: R_iter(),
        "timed1": lambda: R_timed_once(T),
        "timedloop": lambda: R_timed_loop(T, 3),
        "try": lambda: R_try_loop(4),
    }
    combos = []
    for n in (1, 2, 3):
        combos += list(itertools.combinations_with_replacement(sorted(recvs), n))
    plans = []
    for combo in combos:
        for u in (1, 2):
            for ut in _sample(rng, list(itertools.product(times, repeat=u)), 3 if tier == "quick" else 10):
                for p in (0, 1, 2):
                    pt = [rng.choice(times) for _ in range(p)]
                    plans.append((combo, list(ut), pt))
        # no unblock at all: timing bounds of idle receivers
        plans.append((combo, [], []))
        plans.append((combo, [], [T * MS - 300_000]))
    if tier == "quick":
        plans = _sample(rng, plans, 300)
    scs = []
    for k, (combo, uts, pts) in enumerate(plans):
        apps = [recvs[r]() for r in combo]
        # one unblocker thread per distinct instant (they never receive)
        for ut in uts:
            apps.append(unblocker(ut, 1))
        cc = [simple_conn(c, 1, at_ns=t) for c, t in enumerate(pts)]
        sc = scenario("C17-%04d" % k, "C17", cc, apps, horizon_ms=6 * T + 20, single=False)
        sc["tags"] = ["queue", "unblock:%d" % len(uts), "recv:" + "+".join(combo)]
        if any(r.startswith("timed") for r in combo) and any(r in ("recv", "iter") for r in combo):
            sc["tags"].append("timed-with-blocking-receiver")
        scs.append(sc)
    return scs

# ------------------------------------------------------------------------------------------------
# C08 / C20: the worker pool

def fam_c08(tier, seed):
    rng = _rng("C08", seed)
    scs = []
    k = 0
    sizes = [1, 2, 3, 4, 5, 6, 8, 16] if tier == "quick" else [1, 2, 3, 4, 5, 6, 7, 8, 9, 12, 16, 32, 64]
    for n in sizes:
        variants = ["burst", "burst-keep", "stalled-mix", "stagger"]
        for var in variants:
            cc = []
            for c in range(n):
                if var == "stalled-mix" and c % 3 == 0 and n > 1:
                    # a connection that stalls in the middle of its request head
                    d, j, ln = conn([Msg()], c)
                    d["prog"] = [{"op": "send", "to": 9}]
                    cc.append((d, j, ln))
                elif var == "burst-keep" and c % 2 == 0:
                    cc.append(simple_conn(c, 1, plan=keep()))
                elif var == "stagger":
                    cc.append(simple_conn(c, 2, at_ns=(c % 3) * 150_000, gap_ns=300_000))
                else:
                    cc.append(simple_conn(c, 1))
            apps = [R_recv(), R_recv()]
            sc = scenario("C08-%04d" % k, "C08", cc, apps, horizon_ms=1000, single=False)
            sc["tags"] = ["pool", "n:%d" % n, var] + (["burst>4"] if n > 4 else [])
            scs.append(sc)
            k += 1
    # waves around the idle period: first wave ends, workers idle / retire, second wave arrives
    for n1, n2, t2 in itertools.product([5, 8], [1, 3, 6], [4_990, 5_000, 5_010, 5_012, 5_020]):
        cc = []
        for c in range(n1):
            d, j, ln = simple_conn(c, 1)
            d["prog"] = [{"op": "send", "to": ln}, {"op": "sleep", "ns": 10 * MS}, {"op": "half"}]
            cc.append((d, j, ln))
        for c in range(n1, n1 + n2):
            cc.append(simple_conn(c, 1, at_ns=t2 * MS))
        sc = scenario("C08-%04d" % k, "C08", cc, [R_recv(), R_recv()], horizon_ms=7000, single=False)
        sc["tags"] = ["pool", "waves", "n:%d+%d" % (n1, n2)]
        scs.append(sc)
        k += 1
    return scs

def fam_c20(tier, seed):
    rng = _rng("C20", seed)
    scs = []
    k = 0
    # (a) bursts followed by idleness: the thread count returns to the baseline
    bursts = [[3], [4], [5], [8], [20], [5, 5], [8, 3, 8]] if tier == "quick" else [[3], [4], [5], [6], [8], [20], [40], [5, 5], [8, 3, 8], [20, 20, 20]]
    for bl in bursts:
        cc = []
        c = 0
        t = 2 * MS
        for b in bl:
            for _ in range(b):
                d, j, ln = simple_conn(c, 1)
                d["prog"] = [{"op": "sleep", "ns": t}, {"op": "send", "to": ln}, {"op": "sleep", "ns": 10 * MS}, {"op": "half"}]
                cc.append((d, j, ln))
                c += 1
            t += 6000 * MS
        end_ms = (t // MS) + 50
        probes = [1 * MS] + [(2 + 6000 * i + 5500) * MS for i in range(len(bl))]
        sc = scenario("C20-%04d" % k, "C20", cc, [R_recv(), R_recv()], horizon_ms=end_ms, single=False,
                      reclaim=list(range(2, 2 + len(bl))), probes_ns=probes)
        sc["tags"] = ["pool", "reclaim", "bursts:" + "+".join(map(str, bl))]
        scs.append(sc)
        k += 1
    # (b) drop while requests are held: they are still answered; new connections are refused
    for n, nk in itertools.product([1, 2, 5], [1, 2]):
        cc = []
        for c in range(n):
            plan = respond(200, 6, wait_phase=2) if c < nk else respond(200, 3)
            cc.append(simple_conn(c, 1, plan=plan))
        sc = scenario("C20-%04d" % k, "C20", cc, [serve("recv", "spawn"), serve("recv", "spawn")], horizon_ms=200, single=False,
                      drop_server_early=True, connect_after_drop=2)
        sc["tags"] = ["pool", "drop-while-held", "n:%d" % n]
        scs.append(sc)
        k += 1
    # (c) plain drop with idle / open connections
    for n in [0, 1, 4, 6]:
        cc = [simple_conn(c, 1) for c in range(n)]
        sc = scenario("C20-%04d" % k, "C20", cc, [R_recv()], horizon_ms=100, single=(n <= 1), connect_after_drop=3)
        sc["tags"] = ["pool", "drop", "n:%d" % n]
        scs.append(sc)
        k += 1
    return scs

# ------------------------------------------------------------------------------------------------
# C01 / C06: the writer chain

def _answer_plans(kind):
    big = 70_000
    plans = {
        "r5": lambda: respond(200, 5),
        "r1023": lambda: respond(200, 1023),
        "r1025": lambda: respond(201, 1025),
        "rbig": lambda: respond(200, big),
        "rundecl": lambda: respond(200, 3000, declared=False),
        "w0": lambda: writer([], flush="never"),
        "w1f": lambda: writer([10], flush="last"),
        "w2f": lambda: writer([700, 900], flush="each"),
        "w2n": lambda: writer([5, 2000], flush="never"),
        "w3l": lambda: writer([1200, 1, 300], flush="last"),
        "drop": lambda: drop(),
        "panic": lambda: panic(),
    }
    return plans

def fam_c01(tier, seed, prop="C01"):
    rng = _rng(prop, seed)
    plans = _answer_plans(prop)
    names = sorted(plans)
    scs = []
    k = 0
    prods = []
    for n in (2, 3):
        prods += list(itertools.product(names, repeat=n))
    if tier == "quick":
        prods = _sample(rng, prods, 220)
        # the shapes behind F1 are always present
        prods += [("r5", "w0", "r5"), ("r1025", "w0", "w2n"), ("w0", "r5"), ("r5", "w0")]
    for combo in prods:
        for mode in ("spawn", "inline"):
            delays = [0] * len(combo)
            if mode == "spawn":
                # answer in a permuted order: delays are a permutation of 0, 1 ms, 2 ms
                perm = list(range(len(combo)))
                rng.shuffle(perm)
                delays = [p * MS for p in perm]
            msgs = []
            for name, dl in zip(combo, delays):
                p = plans[name]()
                if dl:
                    p["delay_ns"] = dl
                msgs.append(Msg(plan=p))
            d, j, ln = conn(msgs, 0)
            late = rng.random() < 0.4 and len(combo) == 3
            if late:
                # the connection thread is still parsing the third request while earlier ones are answered
                d["prog"] = [{"op": "send", "to": d["msgs"][1]["be"]}, {"op": "sleep", "ns": 500_000}, {"op": "send", "to": ln}]
            if mode == "spawn":
                apps = [serve("recv", "spawn")]
            else:
                apps = [{"prog": [{"op": "collect", "k": len(combo), "kind": "recv"}, {"op": "handle", "sel": "all", "mode": "inline"},
                                  {"op": "serve", "kind": "recv", "mode": "inline", "max_empty": 1, "ms": 0}]}]
            sc = scenario("%s-%04d" % (prop, k), prop, [(d, j, ln)], apps, horizon_ms=100)
            sc["tags"] = ["writer-chain", mode] + ["plan:" + "+".join(combo)]
            if "w0" in combo:
                sc["tags"].append("unused-writer-dropped")
            scs.append(sc)
            k += 1
    return scs

def fam_c06(tier, seed):
    scs = fam_c01(tier, seed, prop="C06")
    return scs

FAMILIES = {
    "C01": fam_c01, "C06": fam_c06, "C07": fam_c07, "C08": fam_c08, "C17": fam_c17, "C20": fam_c20,
}
