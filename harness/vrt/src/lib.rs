//! tiny_http_vrt — a small deterministic runtime.
//!
//! Real OS threads, one global baton: exactly one registered thread runs at a time, from one
//! scheduling point to the next. Every blocking point, every `notify_one` choice and every timer
//! expiry is a decision of a pluggable `Scheduler`. Time is virtual (nanoseconds) and advances only
//! when nothing is runnable (discrete-event), never beyond the horizon given by the controller.
//!
//! The API mirrors exactly what tiny-http uses from `std::sync`, `std::sync::mpsc`, `std::thread`,
//! `std::time::Instant`, plus an in-memory transport (`net`).
//!
//! See /verif/DESIGN.md §4 and Appendix B.

use std::cell::RefCell;
use std::collections::HashMap;
use std::sync::atomic::{AtomicUsize, Ordering};
use std::sync::{Arc, Condvar as SCondvar, Mutex as SMutex, MutexGuard as SGuard};
use std::time::Duration;

pub mod net;
pub mod sched;
pub mod sync;
pub mod thread;
pub mod time;

pub use sched::{Allow, AllowSched, Opt, OptKind, Scheduler};

static NEXT_OBJ: AtomicUsize = AtomicUsize::new(1);

pub(crate) fn new_obj() -> usize {
    NEXT_OBJ.fetch_add(1, Ordering::Relaxed)
}

thread_local! {
    static CUR: RefCell<Option<(Arc<Rt>, usize)>> = RefCell::new(None);
}

pub(crate) fn cur() -> Option<(Arc<Rt>, usize)> {
    CUR.with(|c| c.borrow().clone())
}

pub(crate) fn cur_or_panic(what: &str) -> (Arc<Rt>, usize) {
    match cur() {
        Some(x) => x,
        None => panic!("vrt: `{}` used by a thread that is not registered with the runtime", what),
    }
}

#[derive(Clone, Copy, Debug, PartialEq, Eq)]
pub enum Kind {
    Lib,
    Env,
}

#[derive(Clone, Debug, PartialEq, Eq)]
pub(crate) enum St {
    Runnable,
    Blocked {
        obj: usize,
        what: &'static str,
        deadline: Option<u64>,
    },
    Finished,
}

pub(crate) struct Parker {
    flag: SMutex<bool>,
    cv: SCondvar,
}

impl Parker {
    fn new() -> Arc<Parker> {
        Arc::new(Parker {
            flag: SMutex::new(false),
            cv: SCondvar::new(),
        })
    }
    fn park(&self) {
        let mut f = self.flag.lock().unwrap();
        while !*f {
            f = self.cv.wait(f).unwrap();
        }
        *f = false;
    }
    fn unpark(&self) {
        let mut f = self.flag.lock().unwrap();
        *f = true;
        self.cv.notify_one();
    }
    fn park_forever(&self) -> ! {
        loop {
            std::thread::park();
        }
    }
}

pub(crate) struct Th {
    name: String,
    kind: Kind,
    st: St,
    parker: Arc<Parker>,
    fired: bool,
    obj: usize,
    in_lib_call: u32,
}

#[derive(Clone, Debug, PartialEq, Eq)]
pub enum Status {
    /// controller owns the execution, nobody runs
    Idle,
    Running,
    /// step budget exhausted: some thread is spinning through scheduling points
    Runaway,
}

#[derive(Clone, Debug)]
pub struct Event {
    pub i: usize,
    pub th: String,
    pub now: u64,
    pub body: String,
}

#[derive(Clone, Debug)]
pub struct ThreadInfo {
    pub name: String,
    pub kind: Kind,
    pub finished: bool,
    pub runnable: bool,
    pub blocked_on: &'static str,
    pub deadline: Option<u64>,
}

pub(crate) struct Inner {
    th: Vec<Th>,
    cur: Option<usize>,
    now: u64,
    horizon: u64,
    status: Status,
    sched: Box<dyn Scheduler>,
    choices: Vec<(u32, u32)>,
    steps: u64,
    max_steps: u64,
    cvw: HashMap<usize, Vec<usize>>,
    events: Vec<Event>,
    phase: u64,
    phase_obj: usize,
    gates: std::collections::HashSet<u64>,
    gate_objs: HashMap<u64, usize>,
    lib_spawned: usize,
    trace_sched: bool,
}

pub struct Rt {
    inner: SMutex<Inner>,
    ctl: SCondvar,
}

pub enum RunResult {
    /// nothing can run without moving time beyond the horizon
    Idle,
    Runaway,
    /// real (wall-clock) watchdog expired: a thread is computing or stuck outside the runtime
    RealTimeout,
}

impl Rt {
    fn lock(&self) -> SGuard<'_, Inner> {
        match self.inner.lock() {
            Ok(g) => g,
            Err(e) => e.into_inner(),
        }
    }

    /// The scheduler loop. Called with the runtime lock held by the thread that owns the baton
    /// (`me`), or by the controller (`me = None`). Returns when `me` owns the baton again.
    fn dispatch(self: &Arc<Self>, mut g: SGuard<'_, Inner>, me: Option<usize>) {
        loop {
            g.steps += 1;
            if g.steps > g.max_steps {
                g.status = Status::Runaway;
                g.cur = None;
                drop(g);
                self.ctl.notify_all();
                if let Some(m) = me {
                    let p = self.lock().th[m].parker.clone();
                    p.park_forever();
                }
                return;
            }
            // menu
            let mut menu: Vec<Opt> = Vec::new();
            let now = g.now;
            if let Some(c) = g.cur {
                if g.th[c].st == St::Runnable {
                    menu.push(Opt {
                        kind: OptKind::Run,
                        tid: c,
                        lib: g.th[c].kind == Kind::Lib,
                        current: true,
                    });
                }
            }
            for (i, t) in g.th.iter().enumerate() {
                if Some(i) == g.cur {
                    continue;
                }
                if t.st == St::Runnable {
                    menu.push(Opt {
                        kind: OptKind::Run,
                        tid: i,
                        lib: t.kind == Kind::Lib,
                        current: false,
                    });
                }
            }
            for (i, t) in g.th.iter().enumerate() {
                if let St::Blocked {
                    deadline: Some(d), ..
                } = t.st
                {
                    if d <= now {
                        menu.push(Opt {
                            kind: OptKind::Fire,
                            tid: i,
                            lib: t.kind == Kind::Lib,
                            current: false,
                        });
                    }
                }
            }
            if menu.is_empty() {
                // advance time to the next deadline if the horizon allows it
                let next = g
                    .th
                    .iter()
                    .filter_map(|t| match t.st {
                        St::Blocked {
                            deadline: Some(d), ..
                        } => Some(d),
                        _ => None,
                    })
                    .min();
                match next {
                    Some(d) if d <= g.horizon => {
                        if d > g.now {
                            g.now = d;
                        }
                        continue;
                    }
                    _ => {
                        g.status = Status::Idle;
                        g.cur = None;
                        let parker = me.and_then(|m| {
                            if g.th[m].st != St::Finished {
                                Some(g.th[m].parker.clone())
                            } else {
                                None
                            }
                        });
                        drop(g);
                        self.ctl.notify_all();
                        if let Some(p) = parker {
                            p.park();
                        }
                        return;
                    }
                }
            }
            let idx = if g.sched.restrictive() {
                match g.sched.choose_opt(&menu) {
                    Some(i) => i,
                    None => {
                        // nothing the controller allows can run: hand the execution back
                        g.status = Status::Idle;
                        g.cur = None;
                        let parker = me.and_then(|m| {
                            if g.th[m].st != St::Finished {
                                Some(g.th[m].parker.clone())
                            } else {
                                None
                            }
                        });
                        drop(g);
                        self.ctl.notify_all();
                        if let Some(p) = parker {
                            p.park();
                        }
                        return;
                    }
                }
            } else if menu.len() == 1 {
                0
            } else {
                let i = g.sched.choose(&menu);
                assert!(i < menu.len(), "scheduler returned an out-of-range choice");
                let n = menu.len() as u32;
                g.choices.push((n, i as u32));
                i
            };
            let o = menu[idx].clone();
            match o.kind {
                OptKind::Fire => {
                    let t = o.tid;
                    if let St::Blocked { obj, .. } = g.th[t].st.clone() {
                        if let Some(w) = g.cvw.get_mut(&obj) {
                            w.retain(|x| *x != t);
                        }
                    }
                    g.th[t].st = St::Runnable;
                    g.th[t].fired = true;
                    if g.trace_sched {
                        eprintln!("[vrt] t={} fire {}", g.now, g.th[t].name);
                    }
                    continue;
                }
                OptKind::Run => {
                    let t = o.tid;
                    g.cur = Some(t);
                    if g.trace_sched {
                        eprintln!("[vrt] t={} run {}", g.now, g.th[t].name);
                    }
                    if Some(t) == me {
                        return;
                    }
                    let next = g.th[t].parker.clone();
                    let mine = me.and_then(|m| {
                        if g.th[m].st != St::Finished {
                            Some(g.th[m].parker.clone())
                        } else {
                            None
                        }
                    });
                    drop(g);
                    next.unpark();
                    if let Some(p) = mine {
                        p.park();
                    }
                    return;
                }
                OptKind::Waiter => unreachable!(),
            }
        }
    }

    /// scheduling point: the calling thread stays runnable
    pub(crate) fn yield_now(self: &Arc<Self>, me: usize) {
        let g = self.lock();
        self.dispatch(g, Some(me));
    }

    /// block the calling thread on `obj`. Returns true iff it was released by its timer.
    pub(crate) fn block(
        self: &Arc<Self>,
        me: usize,
        obj: usize,
        what: &'static str,
        deadline: Option<u64>,
    ) -> bool {
        let mut g = self.lock();
        g.th[me].st = St::Blocked {
            obj,
            what,
            deadline,
        };
        g.th[me].fired = false;
        self.dispatch(g, Some(me));
        let mut g = self.lock();
        let f = g.th[me].fired;
        g.th[me].fired = false;
        f
    }

    /// like `block`, but registers the thread as a waiter of condvar `cv` first
    pub(crate) fn block_cv(self: &Arc<Self>, me: usize, cv: usize, deadline: Option<u64>) -> bool {
        {
            let mut g = self.lock();
            g.cvw.entry(cv).or_default().push(me);
        }
        self.block(me, cv, "condvar", deadline)
    }

    pub(crate) fn wake_obj(&self, obj: usize) {
        let mut g = self.lock();
        for t in g.th.iter_mut() {
            if let St::Blocked { obj: o, .. } = t.st {
                if o == obj {
                    t.st = St::Runnable;
                }
            }
        }
    }

    pub(crate) fn notify_one(&self, cv: usize) {
        let mut g = self.lock();
        let n = g.cvw.get(&cv).map(|w| w.len()).unwrap_or(0);
        if n == 0 {
            return;
        }
        let idx = if n == 1 {
            0
        } else {
            let menu: Vec<Opt> = g.cvw[&cv]
                .iter()
                .map(|t| Opt {
                    kind: OptKind::Waiter,
                    tid: *t,
                    lib: g.th[*t].kind == Kind::Lib,
                    current: false,
                })
                .collect();
            let i = g.sched.choose(&menu);
            assert!(i < n);
            g.choices.push((n as u32, i as u32));
            i
        };
        let t = g.cvw.get_mut(&cv).unwrap().remove(idx);
        g.th[t].st = St::Runnable;
        if g.trace_sched {
            eprintln!("[vrt] t={} notify -> {}", g.now, g.th[t].name);
        }
    }

    pub(crate) fn notify_all(&self, cv: usize) {
        let mut g = self.lock();
        let w = g.cvw.remove(&cv).unwrap_or_default();
        for t in w {
            g.th[t].st = St::Runnable;
        }
    }

    pub(crate) fn now(&self) -> u64 {
        self.lock().now
    }

    pub(crate) fn thread_name(&self, t: usize) -> String {
        self.lock().th[t].name.clone()
    }

    pub(crate) fn thread_kind(&self, t: usize) -> Kind {
        self.lock().th[t].kind
    }

    pub(crate) fn push_event(&self, me: Option<usize>, body: String) {
        let mut g = self.lock();
        let i = g.events.len();
        let th = match me {
            Some(m) => g.th[m].name.clone(),
            None => "ctl".to_string(),
        };
        let now = g.now;
        g.events.push(Event { i, th, now, body });
    }

    /// register a new thread; returns its index. The OS thread is started by the caller.
    pub(crate) fn register(self: &Arc<Self>, name: Option<String>, kind: Kind) -> (usize, Arc<Parker>) {
        let mut g = self.lock();
        let name = match name {
            Some(n) => n,
            None => {
                let n = g.lib_spawned;
                g.lib_spawned += 1;
                format!("lib:{}", n)
            }
        };
        let p = Parker::new();
        g.th.push(Th {
            name,
            kind,
            st: St::Runnable,
            parker: p.clone(),
            fired: false,
            obj: new_obj(),
            in_lib_call: 0,
        });
        (g.th.len() - 1, p)
    }

    pub(crate) fn start_os_thread<F: FnOnce() + Send + 'static>(
        self: &Arc<Self>,
        tid: usize,
        parker: Arc<Parker>,
        f: F,
    ) {
        let rt = self.clone();
        let name = self.thread_name(tid);
        std::thread::Builder::new()
            .name(name)
            .stack_size(1 << 20)
            .spawn(move || {
                parker.park();
                CUR.with(|c| *c.borrow_mut() = Some((rt.clone(), tid)));
                let r = std::panic::catch_unwind(std::panic::AssertUnwindSafe(f));
                if let Err(e) = r {
                    let msg = if let Some(s) = e.downcast_ref::<&str>() {
                        s.to_string()
                    } else if let Some(s) = e.downcast_ref::<String>() {
                        s.clone()
                    } else {
                        "<non-string panic>".to_string()
                    };
                    let in_lib = rt.lock().th[tid].in_lib_call > 0
                        || rt.lock().th[tid].kind == Kind::Lib;
                    rt.push_event(
                        Some(tid),
                        format!(
                            "\"ev\":\"ThreadDied\",\"inlib\":{},\"msg\":{}",
                            in_lib,
                            json_str(&msg)
                        ),
                    );
                }
                CUR.with(|c| *c.borrow_mut() = None);
                let mut g = rt.lock();
                g.th[tid].st = St::Finished;
                let obj = g.th[tid].obj;
                for t in g.th.iter_mut() {
                    if let St::Blocked { obj: o, .. } = t.st {
                        if o == obj {
                            t.st = St::Runnable;
                        }
                    }
                }
                rt.dispatch(g, Some(tid));
            })
            .expect("vrt: cannot spawn OS thread");
    }

    pub(crate) fn thread_obj(&self, t: usize) -> usize {
        self.lock().th[t].obj
    }

    pub(crate) fn is_finished(&self, t: usize) -> bool {
        self.lock().th[t].st == St::Finished
    }
}

pub fn json_str(s: &str) -> String {
    let mut o = String::with_capacity(s.len() + 2);
    o.push('"');
    for c in s.chars() {
        match c {
            '"' => o.push_str("\\\""),
            '\\' => o.push_str("\\\\"),
            '\n' => o.push_str("\\n"),
            '\r' => o.push_str("\\r"),
            '\t' => o.push_str("\\t"),
            c if (c as u32) < 0x20 => o.push_str(&format!("\\u{:04x}", c as u32)),
            c => o.push(c),
        }
    }
    o.push('"');
    o
}

/// Handle used by the controller (a thread *outside* the runtime).
pub struct Execution {
    rt: Arc<Rt>,
}

impl Execution {
    pub fn new(sched: Box<dyn Scheduler>) -> Execution {
        Execution {
            rt: Arc::new(Rt {
                inner: SMutex::new(Inner {
                    th: Vec::new(),
                    cur: None,
                    now: 0,
                    horizon: 0,
                    status: Status::Idle,
                    sched,
                    choices: Vec::new(),
                    steps: 0,
                    max_steps: 2_000_000,
                    cvw: HashMap::new(),
                    events: Vec::new(),
                    phase: 0,
                    phase_obj: new_obj(),
                    gates: std::collections::HashSet::new(),
                    gate_objs: HashMap::new(),
                    lib_spawned: 0,
                    trace_sched: std::env::var_os("VRT_TRACE").is_some(),
                }),
                ctl: SCondvar::new(),
            }),
        }
    }

    pub fn set_max_steps(&self, n: u64) {
        self.rt.lock().max_steps = n;
    }

    pub fn spawn_env<F: FnOnce() + Send + 'static>(&self, name: &str, f: F) {
        let (tid, p) = self.rt.register(Some(name.to_string()), Kind::Env);
        self.rt.start_os_thread(tid, p, f);
    }

    /// Let the execution run until nothing can happen without moving virtual time beyond
    /// `horizon_ns` (absolute).
    pub fn run_until(&self, horizon_ns: u64, real_timeout: Duration) -> RunResult {
        let mut g = self.rt.lock();
        assert!(g.status != Status::Running);
        if g.status == Status::Runaway {
            return RunResult::Runaway;
        }
        g.horizon = horizon_ns;
        g.status = Status::Running;
        self.rt.dispatch(g, None);
        let start = std::time::Instant::now();
        let mut g = self.rt.lock();
        loop {
            match g.status {
                Status::Idle => return RunResult::Idle,
                Status::Runaway => return RunResult::Runaway,
                Status::Running => {}
            }
            let left = match real_timeout.checked_sub(start.elapsed()) {
                Some(l) if l > Duration::from_millis(0) => l,
                _ => return RunResult::RealTimeout,
            };
            let (ng, _) = match self.rt.ctl.wait_timeout(g, left) {
                Ok(x) => x,
                Err(e) => e.into_inner(),
            };
            g = ng;
        }
    }

    pub fn now(&self) -> u64 {
        self.rt.now()
    }

    /// move the clock forward without running anything (only while idle)
    pub fn set_phase(&self, k: u64) {
        let obj = {
            let mut g = self.rt.lock();
            if k > g.phase {
                g.phase = k;
            }
            g.phase_obj
        };
        self.rt.wake_obj(obj);
    }

    /// open a gate: threads blocked in `gate_wait(id)` may pass (directed execution)
    pub fn open_gate(&self, id: u64) {
        let obj = {
            let mut g = self.rt.lock();
            g.gates.insert(id);
            *g.gate_objs.entry(id).or_insert_with(new_obj)
        };
        self.rt.wake_obj(obj);
    }

    pub fn tid_of(&self, name: &str) -> Option<usize> {
        self.rt.lock().th.iter().position(|t| t.name == name)
    }

    /// let the timer of a blocked thread expire now (its deadline must have been reached)
    pub fn fire_timer(&self, tid: usize) -> bool {
        let mut g = self.rt.lock();
        let now = g.now;
        if let St::Blocked { obj, deadline: Some(d), .. } = g.th[tid].st.clone() {
            if d <= now {
                if let Some(w) = g.cvw.get_mut(&obj) {
                    w.retain(|x| *x != tid);
                }
                g.th[tid].st = St::Runnable;
                g.th[tid].fired = true;
                return true;
            }
        }
        false
    }

    /// spurious wake-up of one thread blocked in a condvar wait
    pub fn spurious_one(&self, tid: usize) -> bool {
        let mut g = self.rt.lock();
        if let St::Blocked { obj, what: "condvar", .. } = g.th[tid].st.clone() {
            if let Some(w) = g.cvw.get_mut(&obj) {
                w.retain(|x| *x != tid);
            }
            g.th[tid].st = St::Runnable;
            return true;
        }
        false
    }

    /// move the virtual clock forward without running anything
    pub fn advance_clock(&self, ns: u64) {
        let mut g = self.rt.lock();
        g.now += ns;
        if g.horizon < g.now {
            g.horizon = g.now;
        }
    }

    pub fn snapshot(&self) -> Vec<ThreadInfo> {
        let g = self.rt.lock();
        g.th.iter()
            .map(|t| ThreadInfo {
                name: t.name.clone(),
                kind: t.kind,
                finished: t.st == St::Finished,
                runnable: t.st == St::Runnable,
                blocked_on: match t.st {
                    St::Blocked { what, .. } => what,
                    _ => "",
                },
                deadline: match t.st {
                    St::Blocked { deadline, .. } => deadline,
                    _ => None,
                },
            })
            .collect()
    }

    pub fn all_finished(&self) -> bool {
        self.rt.lock().th.iter().all(|t| t.st == St::Finished)
    }

    pub fn take_events(&self) -> Vec<Event> {
        std::mem::take(&mut self.rt.lock().events)
    }

    pub fn choices(&self) -> Vec<(u32, u32)> {
        self.rt.lock().choices.clone()
    }

    pub fn steps(&self) -> u64 {
        self.rt.lock().steps
    }

    pub fn log(&self, body: String) {
        self.rt.push_event(None, body);
    }
}

// ---------------------------------------------------------------------------------------------
// functions for threads inside the runtime (environment side)

/// append an event to the execution's log. `body` is the inside of a JSON object.
pub fn log(body: String) {
    if let Some((rt, me)) = cur() {
        rt.push_event(Some(me), body);
    }
}

pub fn now_ns() -> u64 {
    let (rt, _) = cur_or_panic("now_ns");
    rt.now()
}

pub fn in_runtime() -> bool {
    cur().is_some()
}

pub fn thread_name() -> String {
    match cur() {
        Some((rt, me)) => rt.thread_name(me),
        None => "outside".to_string(),
    }
}

/// block until the controller has opened phase `k`
pub fn wait_phase(k: u64) {
    let (rt, me) = cur_or_panic("wait_phase");
    loop {
        let (ph, obj) = {
            let g = rt.lock();
            (g.phase, g.phase_obj)
        };
        if ph >= k {
            return;
        }
        rt.block(me, obj, "phase", None);
    }
}

/// spurious wake-up of every thread that is blocked in a condvar wait (std allows a wait to return
/// although nobody notified); each of them still has to re-acquire its mutex
pub fn spurious_wake_all() {
    if let Some((rt, _)) = cur() {
        let mut g = rt.lock();
        let all: Vec<usize> = g.cvw.drain().flat_map(|(_, w)| w).collect();
        for t in all {
            g.th[t].st = St::Runnable;
        }
    }
}

/// block until the controller has opened gate `id` (directed execution)
pub fn gate_wait(id: u64) {
    let (rt, me) = cur_or_panic("gate_wait");
    loop {
        let (open, obj) = {
            let mut g = rt.lock();
            let o = *g.gate_objs.entry(id).or_insert_with(new_obj);
            (g.gates.contains(&id), o)
        };
        if open {
            return;
        }
        rt.block(me, obj, "gate", None);
    }
}

pub fn yield_now() {
    if let Some((rt, me)) = cur() {
        rt.yield_now(me);
    }
}

/// spawn an environment thread from inside the runtime
pub fn spawn_env<F: FnOnce() + Send + 'static>(name: &str, f: F) -> thread::JoinHandle<()> {
    let (rt, me) = cur_or_panic("spawn_env");
    let (tid, p) = rt.register(Some(name.to_string()), Kind::Env);
    rt.start_os_thread(tid, p, f);
    let h = thread::JoinHandle::new_unit(rt.clone(), tid);
    rt.yield_now(me);
    h
}

/// marks the dynamic extent in which an environment thread executes library code (used to attribute
/// panics: "inside the library" for C14)
pub struct LibCall {
    _p: (),
}

impl LibCall {
    pub fn enter() -> LibCall {
        if let Some((rt, me)) = cur() {
            rt.lock().th[me].in_lib_call += 1;
        }
        LibCall { _p: () }
    }
}

impl Drop for LibCall {
    fn drop(&mut self) {
        if std::thread::panicking() {
            return; // keep the mark so that the panic is attributed
        }
        if let Some((rt, me)) = cur() {
            let mut g = rt.lock();
            if g.th[me].in_lib_call > 0 {
                g.th[me].in_lib_call -= 1;
            }
        }
    }
}

/// mechanism-level marker (hook kind 3): logs `name` with scalar fields. Never a scheduling point
/// when called under a lock; `mark_yield` is the variant for lock-free places.
pub fn mark(name: &str, vals: &[(&str, i64)]) {
    if let Some((rt, me)) = cur() {
        let mut s = format!("\"ev\":\"mark\",\"m\":{}", json_str(name));
        for (k, v) in vals {
            s.push_str(&format!(",{}:{}", json_str(k), v));
        }
        rt.push_event(Some(me), s);
    }
}

pub fn mark_yield(name: &str, vals: &[(&str, i64)]) {
    mark(name, vals);
    yield_now();
}

/// a process-wide fresh number (identifies an instrumented object in marker events)
pub fn fresh_id() -> usize {
    static NEXT: std::sync::atomic::AtomicUsize = std::sync::atomic::AtomicUsize::new(1);
    NEXT.fetch_add(1, std::sync::atomic::Ordering::Relaxed)
}

#[macro_export]
macro_rules! mark {
    ($name:expr $(, $k:ident = $v:expr)* $(,)?) => {
        $crate::mark($name, &[$((stringify!($k), ($v) as i64)),*])
    };
}
