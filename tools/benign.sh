#!/bin/sh
# every behaviour-preserving change of seeded/benign against EVERY check (isolated: /repo is not touched);
# any exit != 0 is a false alarm of the machinery.  usage: benign.sh <lanes>   -> work/benign.log
lanes="${1:-3}"
cd /verif
all=$(python3 -c "import json;print(' '.join(c['property_id'] for c in json.load(open('/verif/MANIFEST.json'))['checks']))")
ls /verif/seeded/benign/*.diff | while read d; do echo "$d $all"; done > /verif/work/benign.jobs
cat /verif/work/benign.jobs | xargs -P "$lanes" -L 1 sh -c 'p="$1"; shift; timeout 10800 /verif/tools/isolated.py "$p" "$@" 2>&1 | grep -E "exit=" | sed "s|^benign|$(basename $p .diff)|"' _ > /verif/work/benign.log 2>&1
echo BENIGN-DONE >> /verif/work/benign.log
