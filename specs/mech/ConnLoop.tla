----------------------------- MODULE ConnLoop -----------------------------
(***************************************************************************)
(* Mechanism specification of one connection's request loop                *)
(* (src/client.rs ClientConnection::next 182-273 and ::read, the iterator  *)
(*  driven by the connection thread in src/lib.rs, and the end of the      *)
(*  connection: the sink is dropped, the write side closes once every      *)
(*  response writer is gone).                                              *)
(*                                                                         *)
(* The client has put a pipeline of messages on the wire (CONSTANT Wire);  *)
(* each message is described by what the loop looks at:                    *)
(*   cls   "ok" | "r400" (malformed ASCII head) | "bin" (non-ASCII head)   *)
(*         | "r417" (unsupported expectation) | "r505" (version above 1.1) *)
(*   ver   "1.0" | "1.1"                                                   *)
(*   con   the Connection header as the three substring tests of the code: *)
(*         [present, close, upgrade, keepalive]                            *)
(* and optionally half-closes after the last one (HalfClose).              *)
(*                                                                         *)
(* One action per step of the loop:                                        *)
(*   Parse      read() + the classification of `next`: error response and  *)
(*              return None | 505 and continue | set no_more_requests and  *)
(*              hand the request to the application                        *)
(*   Eof        read() finds the end of the client's stream                *)
(*   Answer(i)  the application answers delivered request i (any order;    *)
(*              the order on the wire is the writer chain's business:      *)
(*              mech/WriterChain)                                          *)
(*   Close      the connection thread has returned and every response      *)
(*              writer is gone: FIN                                        *)
(*                                                                         *)
(* Named deviations (seeded changes that this level can express):          *)
(*   DevKeepAliveWins  seeded/C12-1: "keep-alive" is tested before "close" *)
(*   DevNoExpect10     seeded/C10-1: Expect is ignored for HTTP/1.0        *)
(***************************************************************************)
EXTENDS Integers, Sequences, FiniteSets, TLC

CONSTANTS Wires,           \* the pipelines explored (every one of them, from the initial state)
          DevKeepAliveWins, DevNoExpect10

VARIABLES
    Wire,       \* the pipeline the client sends: sequence of message descriptors (never changes)
    HalfClose,  \* the client closes its sending side after the last message (never changes)
    pos,        \* next message to parse (1..N+1)
    nomore,     \* ClientConnection::no_more_requests
    running,    \* the connection thread is still in its loop
    delivered,  \* messages handed to the application, in order
    answered,   \* delivered messages the application has answered
    out,        \* responses owed on the wire, in request order: <<message, status>>
    closed      \* the server has closed its sending side

vars == <<Wire, HalfClose, pos, nomore, running, delivered, answered, out, closed>>
N == Len(Wire)

Init ==
    /\ Wire \in Wires /\ HalfClose \in BOOLEAN
    /\ pos = 1 /\ nomore = FALSE /\ running = TRUE
    /\ delivered = <<>> /\ answered = {} /\ out = <<>> /\ closed = FALSE

\* the persistence decision of `next` (lines 249-268) for a request that is handed over
EndsConnection(m) ==
    LET c == m.con IN
    IF DevKeepAliveWins /\ c.present /\ c.keepalive THEN FALSE
    ELSE \/ c.present /\ c.close
         \/ c.present /\ c.upgrade
         \/ m.ver = "1.0" /\ ~(c.present /\ c.keepalive)

\* how read()/next classify the message
Class(m) == IF m.cls = "r417" /\ DevNoExpect10 /\ m.ver = "1.0" THEN "ok" ELSE m.cls

\* the bytes of message pos are (eventually) there: the client sends the whole pipeline
Available == pos <= N

Parse ==
    /\ running /\ ~nomore /\ Available
    /\ LET m == Wire[pos] c == Class(m) IN
       CASE c = "r400" -> /\ out' = Append(out, <<pos, 400>>) /\ running' = FALSE
                          /\ UNCHANGED <<nomore, delivered, answered>>
         [] c = "r417" -> /\ out' = Append(out, <<pos, 417>>) /\ running' = FALSE
                          /\ UNCHANGED <<nomore, delivered, answered>>
         [] c = "bin"  -> /\ running' = FALSE          \* ReadIoError: plain close
                          /\ UNCHANGED <<nomore, delivered, answered, out>>
         [] c = "r505" -> /\ out' = Append(out, <<pos, 505>>)      \* and `continue`
                          /\ UNCHANGED <<nomore, running, delivered, answered>>
         [] OTHER      -> /\ delivered' = Append(delivered, pos)
                          /\ nomore' = EndsConnection(m)
                          /\ UNCHANGED <<running, answered, out>>
    /\ pos' = pos + 1
    /\ UNCHANGED <<Wire, HalfClose, closed>>

\* no_more_requests: `next` returns None at its top
Stop ==
    /\ running /\ nomore
    /\ running' = FALSE
    /\ UNCHANGED <<Wire, HalfClose, pos, nomore, delivered, answered, out, closed>>

\* the client's stream has ended where the next head would start
Eof ==
    /\ running /\ ~nomore /\ pos > N /\ HalfClose
    /\ running' = FALSE
    /\ UNCHANGED <<Wire, HalfClose, pos, nomore, delivered, answered, out, closed>>

Answer(i) ==
    /\ \E k \in 1..Len(delivered) : delivered[k] = i
    /\ i \notin answered
    /\ answered' = answered \cup {i}
    /\ out' = Append(out, <<i, 200>>)
    /\ UNCHANGED <<Wire, HalfClose, pos, nomore, running, delivered, closed>>

Close ==
    /\ ~running /\ ~closed
    /\ \A k \in 1..Len(delivered) : delivered[k] \in answered
    /\ closed' = TRUE
    /\ UNCHANGED <<Wire, HalfClose, pos, nomore, running, delivered, answered, out>>

MaxN == 4
Next == Parse \/ Stop \/ Eof \/ Close \/ \E i \in 1..MaxN : Answer(i)

Fairness == WF_vars(Parse) /\ WF_vars(Stop) /\ WF_vars(Eof) /\ WF_vars(Close) /\ \A i \in 1..MaxN : WF_vars(Answer(i))
Spec == Init /\ [][Next]_vars
FairSpec == Spec /\ Fairness

-----------------------------------------------------------------------------
\* The reference outcome, written from the statements of C10 and C12 (not from the code):
\* the first message that ends the conversation, and how
RECURSIVE StopAtW(_, _)
StopAtW(w, k) ==  \* index of the first message of w at or after k after which nothing is interpreted (Len(w)+1: none)
    IF k > Len(w) THEN Len(w) + 1
    ELSE LET m == w[k] IN
         IF m.cls \in {"r400", "r417", "bin"} THEN k
         ELSE IF m.cls = "ok" /\ ( (m.ver = "1.1" /\ m.con.present /\ (m.con.close \/ m.con.upgrade))
                                  \/ (m.ver = "1.0" /\ ~(m.con.present /\ m.con.keepalive))
                                  \* the statement is silent on an HTTP/1.0 request that says keep-alive AND close /
                                  \* upgrade; the code's substring tests end the connection, and so does the reference
                                  \/ (m.ver = "1.0" /\ m.con.present /\ (m.con.close \/ m.con.upgrade)) )
              THEN k
              ELSE StopAtW(w, k + 1)
Last == StopAtW(Wire, 1)

RefDelivered == {k \in 1..N : k <= Last /\ Wire[k].cls = "ok"}
RefStatus(k) == CASE Wire[k].cls = "r400" -> 400 [] Wire[k].cls = "r417" -> 417 [] Wire[k].cls = "r505" -> 505 [] OTHER -> 200
RefAnswered == {k \in 1..N : k <= Last /\ Wire[k].cls # "bin"}
\* the server closes iff the conversation has ended: a stopping message, or the client's FIN after everything
RefCloses == Last <= N \/ HalfClose

Delivered == {delivered[k] : k \in 1..Len(delivered)}

\* C10 / C12: nothing that must not be interpreted is handed over, nothing is handed over twice or out of order
NeverBeyondStop == Delivered \subseteq RefDelivered
InWireOrder == \A a, b \in 1..Len(delivered) : a < b => delivered[a] < delivered[b]
\* every response that exists is the one the class calls for, at most one per message
StatusOK == /\ \A k \in 1..Len(out) : out[k][2] = RefStatus(out[k][1])
            /\ \A a, b \in 1..Len(out) : a # b => out[a][1] # out[b][1]
\* the sending side closes only when everything received has been answered
ClosedAfterAll == closed => (\A k \in RefAnswered : \E j \in 1..Len(out) : out[j][1] = k)
\* and never while the connection must stay usable
NotClosedWhileUsable == closed => RefCloses
TypeOK == pos \in 1..(N + 1) /\ closed \in BOOLEAN /\ running \in BOOLEAN

\* liveness: a definitive outcome, promptly: everything owed is answered and, if the conversation is over, FIN
Outcome == <>[](/\ Delivered = RefDelivered
                /\ {out[j][1] : j \in 1..Len(out)} = RefAnswered
                /\ closed = RefCloses)
=============================================================================
