\* behaviours for the specification -> implementation walks: the real MIN_THREADS (4), up to 7 connections that
\* may end, up to 9 threads; no pool drop (the accept loop owns the pool)
SPECIFICATION WSpec
CONSTANTS
  N = 7
  MinThreads = 4
  MaxW = 9
  CanFinish = TRUE
  CanDrop = FALSE
  DevPoolCountsWoken = FALSE
INVARIANT Emit
CONSTRAINT Bound
CHECK_DEADLOCK FALSE
