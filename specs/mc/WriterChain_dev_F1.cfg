\* 3 pipelined requests, every assignment of 6 plans, each request on its own thread, plus the
\* connection thread's error response; all interleavings
SPECIFICATION FairSpec
CONSTANTS
  N = 3
  Plans <- QuickPlans
  ConnErr = TRUE
  DevWriterDropSkipsTurn = TRUE
  DevFlushReleases = FALSE
  Dev505OnNextWriter = FALSE
INVARIANTS TypeOK OrderInv NoDup Complete NoHoldUp ClosedHasAll

CHECK_DEADLOCK FALSE
