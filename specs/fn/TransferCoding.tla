--------------------------- MODULE TransferCoding ---------------------------
(***************************************************************************)
(* C05: which transfer coding a response uses is a fixed function of the   *)
(* request's version, the status, the TE header, the body length and the   *)
(* response's chunking threshold.                                          *)
(*                                                                         *)
(* Choose(c) is the decision table transcribed from the property           *)
(* statement; it returns the SET of outcomes the statement allows          *)
(* ("identity", "chunked", "none" = neither framing header).  CodeChoose(c) *)
(* is a second, if-chain transcription shaped like response.rs:112-184 and *)
(* util/mod.rs:25-48 (stable sort by q, q default 1, q <= 0 skipped, a     *)
(* malformed q leaves the default).  ChooseAgrees says that the code-shaped *)
(* function always picks an allowed outcome; TLC checks it over the whole  *)
(* abstract domain.                                                        *)
(*                                                                         *)
(* Abstract case: [ver, st, len, thr, te, head, upg]                       *)
(*   ver  in {"0.9","1.0","1.1"}                                           *)
(*   st   in {"1xx","200","204","304","other"}                             *)
(*   len  in {"unknown","0","thr-1","thr","thr+1"}  (relative to thr)      *)
(*   thr  in {"0","1","small","default","max"}                             *)
(*   te   = sequence of [c |-> coding, q |-> q]; <<>> = no TE header       *)
(***************************************************************************)
EXTENDS Integers, Sequences, FiniteSets

Versions == {"0.9", "1.0", "1.1"}
StClasses == {"1xx", "200", "204", "304", "other"}
Lens == {"unknown", "0", "thr-1", "thr", "thr+1"}
Thrs == {"0", "1", "small", "default", "max"}
Codings == {"chunked", "identity", "trailers", "other"}
Qs == {"absent", "1", "0.5", "0.5009", "0.001", "0.0005", "0", "bad"}

Supported(c) == c \in {"chunked", "identity"}

\* q in ten-thousandths (a weight is compared as the number it is: 0.5009 is more than 0.5, 0.0005 is more than 0);
\* "bad" (not a number at all, or not a finite one) is open: either the default 1 or the entry is ignored
QVals(q) == CASE q = "absent" -> {10000} [] q = "1" -> {10000} [] q = "0.5" -> {5000} [] q = "0.5009" -> {5009}
              [] q = "0.001" -> {10} [] q = "0.0005" -> {5} [] q = "0" -> {0} [] q = "bad" -> {10000, -1}

ThrNum(c) == CASE c.thr = "0" -> 0 [] c.thr = "1" -> 1 [] c.thr = "small" -> 7
               [] c.thr = "default" -> 32768 [] c.thr = "max" -> 2000000000    \* stands for usize::MAX
LenNum(c) == CASE c.len = "0" -> 0 [] c.len = "thr-1" -> ThrNum(c) - 1 [] c.len = "thr" -> ThrNum(c)
               [] c.len = "thr+1" -> ThrNum(c) + 1 [] c.len = "unknown" -> -1
\* combinations that exist
LenValid(c) == c.len = "unknown" \/ (LenNum(c) >= 0 /\ ~(c.thr = "max" /\ c.len = "thr+1"))
AtLeastThr(c) == c.len # "unknown" /\ LenNum(c) >= ThrNum(c)

ByLength(c) == IF c.len = "unknown" \/ AtLeastThr(c) THEN "chunked" ELSE "identity"

\* all assignments of a value to every entry's q
RECURSIVE QAssign(_)
QAssign(te) ==
    IF te = <<>> THEN {<<>>}
    ELSE {<<v>> \o rest : v \in QVals(te[1].q), rest \in QAssign(Tail(te))}

\* the most preferred supported coding with q > 0 under one q-assignment: highest q, earliest on ties
Pick(te, qa) ==
    LET cand == {i \in 1..Len(te) : Supported(te[i].c) /\ qa[i] > 0}
    IN  IF cand = {} THEN "nil"
        ELSE LET best == CHOOSE i \in cand : \A j \in cand : qa[i] > qa[j] \/ (qa[i] = qa[j] /\ i <= j)
             IN te[best].c

\* the statement's "most preferred supported coding (q > 0) named in TE"
Preferred(te) == {Pick(te, qa) : qa \in QAssign(te)}

Choose(c) ==
    IF c.upg THEN {"none"}
    ELSE IF c.ver \in {"0.9", "1.0"} \/ c.st \in {"1xx", "204"} THEN {"identity"}
    ELSE {IF p # "nil" THEN p ELSE ByLength(c) : p \in Preferred(c.te)}

-----------------------------------------------------------------------------
\* code-shaped transcription (response.rs / util::parse_header_value)
CodeQ(q) == CASE q = "absent" -> 10000 [] q = "1" -> 10000 [] q = "0.5" -> 5000 [] q = "0.5009" -> 5009 [] q = "0.001" -> 10
              [] q = "0.0005" -> 5 [] q = "0" -> 0 [] q = "bad" -> 10000

\* position of entry i after a stable sort by descending q
Rank(te, i) == Cardinality({j \in 1..Len(te) : CodeQ(te[j].q) > CodeQ(te[i].q) \/ (CodeQ(te[j].q) = CodeQ(te[i].q) /\ j < i)})

CodeUserRequest(te) ==
    LET ok == {i \in 1..Len(te) : CodeQ(te[i].q) > 0 /\ Supported(te[i].c)}
    IN IF ok = {} THEN "nil"
       ELSE te[CHOOSE i \in ok : \A j \in ok : Rank(te, i) <= Rank(te, j)].c

CodeChoose(c) ==
    IF c.upg THEN "none"
    ELSE IF c.ver \in {"0.9", "1.0"} THEN "identity"
    ELSE IF c.st \in {"1xx", "204"} THEN "identity"
    ELSE IF CodeUserRequest(c.te) # "nil" THEN CodeUserRequest(c.te)
    ELSE IF c.len = "unknown" \/ AtLeastThr(c) THEN "chunked"
    ELSE "identity"

\* framing headers an outcome must produce (C05, last sentence)
FramingOK(outcome, obs) ==
    CASE outcome = "identity" -> obs.hascl /\ ~obs.haste /\ obs.clmatches
      [] outcome = "chunked" -> obs.haste /\ ~obs.hascl
      [] outcome = "none" -> ~obs.haste /\ ~obs.hascl

\* clauses of the statement, as properties of the table (checked by TLC as ASSUMEs in MC_Fn)
NeverChunkedOld(c) == (c.ver \in {"0.9", "1.0"} /\ ~c.upg) => Choose(c) = {"identity"}
NeverChunked1xx204(c) == (c.st \in {"1xx", "204"} /\ ~c.upg) => Choose(c) = {"identity"}
ThresholdRule(c) == (c.ver = "1.1" /\ c.st \notin {"1xx", "204"} /\ c.te = <<>> /\ ~c.upg)
                       => Choose(c) = {ByLength(c)}
ChooseAgrees(c) == CodeChoose(c) \in Choose(c)
=============================================================================
