#!/usr/bin/env python3
"""(re)writes /verif/MANIFEST.json from the property tables"""
import json, sys
sys.path.insert(0, "/verif/tools")
import props
allp = [json.loads(l) for l in open("/verif/properties.jsonl")]
SCHED = ("TLC model-checks the code-shaped mechanism specification (specs/mech) for all interleavings within small constants where one exists for "
         "the property; the real code, rebuilt from /repo's working tree, is run under the controllable runtime (vrt) on a generated scenario family "
         "and many schedules, and TLC validates every distinct recorded execution against the judge specification (specs/judge via specs/trace/T_Judge.tla), "
         "which evaluates the property's guards at every step.")
FN = ("TLC enumerates the complete abstract case product from the function-level specification (specs/fn, specs/mc/MC_Fn.tla), checks the decision table "
      "against the statement's clauses over the whole domain, every case is run through the real Response code, and TLC judges every observation.")
notes = {
 "model": "Small-scope: constants and counts are in the evidence file. The binding between specification and code is by trace validation of the explored executions, not proof; the runtime model (vrt) is sequentially consistent and models documented std semantics.",
 "fn": "Class-exhaustive over the abstract domain of the specification; bytes inside a class are seeded samples. The harness's independent client parser is the reference for well-formedness.",
}
claimed = {}
EXPL = ("Specification-driven exploration: the adversarial input class product of DESIGN.md (C14) is run against the real server in a real process over real sockets, "
        "with a tracking allocator and a panic hook; TLC validates every recorded execution against the resource judge (specs/judge/AbsRes.tla). Class coverage with seeded "
        "bytes inside each class; not byte-level exhaustive, and there is no mechanism model to check, hence 'exploration'.")
for p in props.PROPS:
    if props.LEVEL.get(p) == "exploration":
        claimed[p] = ("exploration", EXPL, "A dying process is data (the victim scenario is identified and judged). Allocation bound: largest single allocation <= 1 MiB + 64 x bytes received.",
                      "TLA+ judge (TLC trace validation) over a specification-driven adversarial class product on the real process")
        continue
    claimed[p] = ("model_checking", SCHED, notes["model"], "TLA+ model checking (TLC) of a mechanism spec + TLC trace validation of executions of the real code under a controllable scheduler")
for p in props.FN_PROPS:
    claimed[p] = ("model_checking", FN, notes["fn"], "TLA+ (TLC) exhaustive enumeration of the abstract case product + TLC-judged conformance of the real code on every case")
for p, v in getattr(props, "EXTRA_CLAIMS", {}).items():
    claimed[p] = v
checks = []
for p in sorted(claimed):
    cat, text, note, tech = claimed[p]
    checks.append({"property_id": p, "quick_cmd": "./check %s --tier quick" % p, "thorough_cmd": "./check %s --tier thorough" % p,
                   "evidence_file": "/verif/evidence/%s.json" % p, "replay_cmd_template": "./check replay {path}", "engine": "tla-judge",
                   "level_claimed": {"category": cat, "text": text, "design_ref": "DESIGN.md section 5, " + p},
                   "level_note": note, "technique": tech})
hooks = json.load(open("/verif/hooks.json"))
m = {"version": 1, "setup_cmd": "./check setup", "hooks": hooks,
     "engines": [{"name": "tla-judge", "path": "/verif/check", "serves_properties": sorted(claimed),
                  "kind_free_text": "explicit TLA+ specifications: code-shaped mechanism specs model-checked by TLC, judge specs as monitors, TLC trace validation of executions recorded from the real code (controllable runtime vrt, real sockets, direct API)"}],
     "checks": checks,
     "notes": "See DESIGN.md. known_findings.json lists the genuine defects found (all repaired by fix: commits in /repo).",
     "not_applicable": [{"property_id": p["id"], "reason": getattr(props, "NOT_YET", {}).get(p["id"], "check not built yet (work in progress; see DESIGN.md section 5)")}
                        for p in allp if p["id"] not in claimed]}
json.dump(m, open("/verif/MANIFEST.json", "w"), indent=1)
print("claimed:", sorted(claimed), "not claimed:", [x["property_id"] for x in m["not_applicable"]])
