----------------------------- MODULE T_TaskPool -----------------------------
(***************************************************************************)
(* Mechanism-level trace specification for the worker pool: the marker     *)
(* events `mark!("pool.…")` of src/util/task_pool.rs must be a behaviour   *)
(* of mech/TaskPool.  Fidelity measurement only (DESIGN.md 2.1).           *)
(*                                                                         *)
(* Events (tools/mechtrace.py; w = index of the library thread = worker    *)
(* number): Reset | dispatch(spawn, todo, waiting) | start(w, task) |      *)
(* take(w, todo, waiting) | wait(w, timed, waiting) | wake(w, received,    *)
(* todo, waiting) | finish(w) | drop.  Timer expiries (Timeout) and the    *)
(* final un-registration of an exiting thread (Exit) are silent steps;     *)
(* which waiter a notify_one woke is inferred by TLC.                      *)
(***************************************************************************)
EXTENDS TaskPool, Json, IOUtils

Rec == ndJsonDeserialize(IOEnv.TRACE)

VARIABLE l
tvars == <<vars, l>>

Reach(n) == TLCSet(42, IF TLCGet(42) < n THEN n ELSE TLCGet(42))

TInit == TLCSet(42, 1) /\ l = 1 /\ Init

E == Rec[l]
TwSet == {E.tw[i] : i \in 1..Len(E.tw)}
Consume == l <= Len(Rec) /\ l' = l + 1
Same == UNCHANGED vars

TReset ==
    /\ Consume /\ E.ev = "Reset"
    /\ todo' = <<>>
    /\ ws' = [w \in Workers |-> IF w <= MinThreads THEN "init" ELSE "none"]
    /\ task' = [w \in Workers |-> 0]
    /\ tmo' = [w \in Workers |-> FALSE]
    /\ waitingCnt' = 0 /\ activeCnt' = 0
    /\ next' = 0 /\ created' = MinThreads
    /\ ran' = [k \in 1..N |-> 0]
    /\ dropped' = FALSE

TDispatch ==
    /\ Consume /\ E.ev = "dispatch"
    /\ Dispatch
    /\ (E.spawn = 1) = (created' = created + 1)
    \* the worker woken by notify_one (if any) is one whose next event is a wake-up with received = 1
    /\ \A w \in Workers : (ws[w] \in {"waitU", "waitT"} /\ ws'[w] = "woken") => \E i \in 1..Len(E.nw) : E.nw[i] = w
    /\ Len(todo') = E.todo /\ waitingCnt = E.waiting

TStart ==
    /\ Consume /\ E.ev = "start"
    /\ Start(E.w)
    /\ (E.task = 1) = (task[E.w] # 0)
    /\ (E.active >= 0) => activeCnt' = E.active      \* (-1: after the pool was dropped the counter is
                                                     \*  the huge marker value, abstracted by BIG)

\* the worker found a task: first look at the queue (Fetch) or back from a wait (Wake)
TTake ==
    /\ Consume /\ E.ev = "take"
    /\ (Fetch(E.w) \/ Wake(E.w))
    /\ ws'[E.w] = "run" /\ Len(todo') = E.todo /\ waitingCnt' = E.waiting

\* the worker registered as waiting and waits (timed iff active_tasks > MIN_THREADS)
TWait ==
    /\ Consume /\ E.ev = "wait"
    /\ (Fetch(E.w) \/ Wake(E.w))
    /\ ws'[E.w] = (IF E.timed = 1 THEN "waitT" ELSE "waitU") /\ waitingCnt' = E.waiting

\* back under the lock after a wait. With received = 0 and an empty queue the thread is on its way out: Wake(w)
\* (it un-registers as waiting under the lock); its active registration is dropped after the lock has been
\* released -- the silent step Exit(w) below, at any later point.  Otherwise the mark is only compared with the
\* state (the following take / wait event is the action)
TWake ==
    /\ Consume /\ E.ev = "wake"
    /\ ws[E.w] = "woken" /\ tmo[E.w] = (E.received = 0)
    /\ Len(todo) = E.todo /\ waitingCnt = E.waiting
    /\ IF E.received = 0 /\ E.todo = 0
       THEN Wake(E.w) /\ ws'[E.w] = "exiting"
       ELSE Same

TFinish == Consume /\ E.ev = "finish" /\ Finish(E.w)
TDrop == Consume /\ E.ev = "drop" /\ PoolDrop /\ \A w \in TwSet : ws[w] # "waitT"

\* Silent steps: the 5 s timer of a worker expires (not logged: it happens in the runtime / kernel).
\* When exactly it expired only matters relative to a notification, so the expiry is taken as late
\* as possible: just before the worker's own wake-up line, or -- all pending ones at once -- before
\* a drop (notify_all) or before a dispatch that wakes nobody.  E.tw = workers whose next event is a
\* wake-up with received = 0 (computed by tools/mechtrace.py).
FireSet(S) ==
    /\ S # {}
    /\ ws' = [w \in Workers |-> IF w \in S THEN "woken" ELSE ws[w]]
    /\ tmo' = [w \in Workers |-> IF w \in S THEN TRUE ELSE tmo[w]]
    /\ UNCHANGED <<todo, task, waitingCnt, activeCnt, next, created, ran, dropped>>

TSilent ==
    /\ l <= Len(Rec) /\ l' = l
    /\ \/ /\ E.ev = "wake" /\ E.received = 0 /\ ws[E.w] = "waitT"
          /\ Timeout(E.w)
       \/ /\ E.ev = "drop"
          /\ FireSet({w \in TwSet : ws[w] = "waitT"})
       \/ /\ E.ev = "dispatch" /\ E.spawn = 0
          /\ ~\E i \in 1..Len(E.nw) : ws[E.nw[i]] \in {"waitU", "waitT"}
          /\ FireSet({w \in TwSet : ws[w] = "waitT"})
       \* a retiring thread drops its active registration (not logged; after the lock was released).  When
       \* exactly only matters to the next reader of the counter, so it is taken as late as possible: before a
       \* `start` that logged a smaller count, or before a `wait` that was untimed although the count was
       \* above the minimum.  Which retiring thread goes first is immaterial: the lowest-numbered one.
       \/ /\ \/ E.ev = "start" /\ E.active >= 0 /\ activeCnt < BIG /\ activeCnt + 1 > E.active
             \/ E.ev = "wait" /\ E.timed = 0 /\ activeCnt < BIG /\ activeCnt > MinThreads
          /\ \E w \in Workers : /\ ws[w] = "exiting" /\ \A v \in Workers : ws[v] = "exiting" => w <= v
                                 /\ Exit(w)

\* the register is advanced only by a step that was actually taken (all of its guards held)
TNext == (TReset \/ TDispatch \/ TStart \/ TTake \/ TWait \/ TWake \/ TFinish \/ TDrop \/ TSilent) /\ Reach(l')
TSpec == TInit /\ [][TNext]_tvars

Accepted == PrintT(<<"MECH", Len(Rec), TLCGet(42)>>)
=============================================================================
