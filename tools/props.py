"""Per-property check definitions and the check procedure (DESIGN.md §5, §7)."""
import json, os, re, shutil, sys, time, glob, random
import vlib
from vlib import log, ToolError, WORK, VERIF, SPECS
import families

# mechanism configurations: (name, cfg, module)
MQ = "MC_MsgQueue.tla"
TP = "../mech/TaskPool.tla"
SL = "../mech/ServerLife.tla"
WC = "MC_WriterChain.tla"
RC = "MC_ReaderChain.tla"
TEMPORAL = "Temporal properties were violated"

PROPS = {
    "C07": dict(
        tlc={"quick": [("MsgQueue_quick", "MsgQueue_quick.cfg", MQ)],
             "thorough": [("MsgQueue_mid", "MsgQueue_mid.cfg", MQ), ("MsgQueue_thorough", "MsgQueue_thorough.cfg", MQ)]},
        dev=[("MsgQueue_dev_F2", "MsgQueue_dev_F2.cfg", MQ, "NoLostWakeup")],
        family="C07", drivers=["d1"], mech=("queue", "T_MsgQueue.tla", "T_MsgQueue.cfg"),
        passes={"quick": [("mix", 8, None), ("demote", 600, 40)], "thorough": [("mix", 40, None), ("delay", 2, 300), ("demote", 1000, 60)]},
        nontrivial=r'"ev":"RecvRet".*"res":"req"',
        rule="scenarios: receiver combinations x request timing (family C07); distinct = distinct observable traces (events incl. virtual time); non-trivial = at least one request was delivered by a receive call",
    ),
    "C17": dict(
        tlc={"quick": [("MsgQueue_quick", "MsgQueue_quick.cfg", MQ)],
             "thorough": [("MsgQueue_mid", "MsgQueue_mid.cfg", MQ), ("MsgQueue_thorough", "MsgQueue_thorough.cfg", MQ)]},
        dev=[("MsgQueue_dev_F2", "MsgQueue_dev_F2.cfg", MQ, "NoLostWakeup")],
        family="C17", drivers=["d1"], mech=("queue", "T_MsgQueue.tla", "T_MsgQueue.cfg"),
        # (the family has grown to some 550 scenarios, many with long timed receives: 60 mixed runs each were 6.5 GB of
        #  traces and an hour of validation; the thorough tier stays at what finishes in well under an hour)
        passes={"quick": [("mix", 8, None), ("demote", 600, 40)], "thorough": [("mix", 24, None), ("delay", 2, 200), ("demote", 800, 40)]},
        nontrivial=r'"ev":"Unblock"',
        rule="scenarios: receiver combinations x unblock instants x request instants (family C17); distinct = distinct observable traces; non-trivial = at least one unblock() call before teardown or a timed receive returning",
    ),
    "C08": dict(
        tlc={"quick": [("TaskPool_quick", "TaskPool_quick.cfg", TP)],
             "thorough": [("TaskPool_quick", "TaskPool_quick.cfg", TP), ("TaskPool_thorough", "TaskPool_thorough.cfg", TP)]},
        dev=[("TaskPool_dev_F3", "TaskPool_dev_F3.cfg", TP, "NoStarve")],
        family="C08", drivers=["d1"], mech=("pool", "T_TaskPool.tla", "T_TaskPool.cfg"), mech2=("server", "T_ServerLife.tla", "T_ServerLife.cfg"),
        passes={"quick": [("mix", 10, None), ("demote", 300, 12)], "thorough": [("mix", 80, None), ("delay", 2, 300), ("demote", 600, 30)]},
        nontrivial=r'"ev":"COpen","c":4,',
        rule="scenarios: N simultaneous keep-alive connections, burst / stalled / held / staggered / waves around the idle period (family C08); distinct = distinct observable traces; non-trivial = at least 5 connections open at once (more than the pool minimum)",
    ),
    "C20": dict(
        tlc={"quick": [("TaskPool_c20_quick", "TaskPool_c20_quick.cfg", TP), ("ServerLife_quick", "ServerLife_quick.cfg", SL), ("ServerLife_tcp", "ServerLife_tcp.cfg", SL)],
             "thorough": [("TaskPool_c20_quick", "TaskPool_c20_quick.cfg", TP), ("TaskPool_c20_thorough", "TaskPool_c20_thorough.cfg", TP),
                          ("ServerLife_quick", "ServerLife_quick.cfg", SL), ("ServerLife_tcp", "ServerLife_tcp.cfg", SL)]},
        dev=[("ServerLife_dev_flagafterwake", "ServerLife_dev_flagafterwake.cfg", SL, "NeverParkedAfterDrop"), ("ServerLife_dev_nowake", "ServerLife_dev_nowake.cfg", SL, "NeverParkedAfterDrop"),
             ("ServerLife_dev_check2", "ServerLife_dev_check2.cfg", SL, "BoundedLateAccepts")],
        family="C20", drivers=["d1"], mech=("pool", "T_TaskPool.tla", "T_TaskPool.cfg"), mech2=("server", "T_ServerLife.tla", "T_ServerLife.cfg"),
        passes={"quick": [("mix", 6, None), ("demote", 400, 16)], "thorough": [("mix", 60, None), ("delay", 1, 100), ("demote", 600, 20)]},
        nontrivial=r'"ev":"(Probe|ServerDrop)"',
        rule="scenarios: bursts followed by idle periods with thread-count probes; server drop with held requests and later connects (family C20); distinct = distinct observable traces",
    ),
    "C01": dict(
        tlc={"quick": [("WriterChain_quick", "WriterChain_quick.cfg", WC)],
             "thorough": [("WriterChain_quick", "WriterChain_quick.cfg", WC), ("WriterChain_thorough", "WriterChain_thorough.cfg", WC)]},
        dev=[("WriterChain_dev_F1", "WriterChain_dev_F1.cfg", WC, "OrderInv"), ("WriterChain_dev_flush", "WriterChain_dev_flush.cfg", WC, "OrderInv")],
        family="C01", drivers=["d1"], mech=("writer", "T_WriterChain.tla", "T_WriterChain.cfg"),
        passes={"quick": [("mix", 12, None), ("delay", 1, 40), ("demote", 400, 30)], "thorough": [("mix", 40, None), ("delay", 2, 400), ("demote", 800, 60)]},
        nontrivial=r'"ev":"CFrame".*"k":1,',
        rule="scenarios: 2-3 pipelined requests x answer plans (respond sizes around the 1 KiB buffer / chunked / raw writer parts x flush / unused writer / drop / panic) x {own thread each, one thread in arrival order} (family C01); distinct = distinct observable traces; non-trivial = at least two response frames reached the client",
    ),
    "C06": dict(
        tlc={"quick": [("WriterChain_quick", "WriterChain_quick.cfg", WC)],
             "thorough": [("WriterChain_quick", "WriterChain_quick.cfg", WC), ("WriterChain_thorough", "WriterChain_thorough.cfg", WC)]},
        dev=[("WriterChain_dev_F5", "WriterChain_dev_F5.cfg", WC, "EveryoneFinishes")],
        family="C06", drivers=["d1", "d2"], d2={"quick": (60, 1), "thorough": (300, 2)}, mech=("writer", "T_WriterChain.tla", "T_WriterChain.cfg"),
        passes={"quick": [("mix", 12, None), ("delay", 1, 40), ("demote", 400, 30)], "thorough": [("mix", 40, None), ("delay", 2, 400), ("demote", 800, 60)]},
        nontrivial=r'"how":"(drop|panic)"',
        rule="as C01; non-trivial = the execution contains a dropped or panicking handler",
    ),
}

D2_PROPS = {"C02", "C03", "C06", "C09", "C10", "C12", "C16", "C18", "C13", "C15"}

RC_FREE = ("ReaderChain_free", "ReaderChain_free.cfg", RC)
RC_HOLD = ("ReaderChain_hold", "ReaderChain_hold.cfg", RC)
RC_F4 = ("ReaderChain_dev_F4", "ReaderChain_dev_F4.cfg", RC, "HeadsAtMessageStart")
SL_Q = ("ServerLife_tcp", "ServerLife_tcp.cfg", SL)
SL_UNWRAP = ("ServerLife_dev_unwrap", "ServerLife_dev_unwrap.cfg", SL, "ServingWhileAlive")
CL = "MC_ConnLoop.tla"
CL_ALL = ("ConnLoop_thorough", "ConnLoop_thorough.cfg", CL)
CL_KA = ("ConnLoop_dev_keepalive", "ConnLoop_dev_keepalive.cfg", CL, "NeverBeyondStop")
CL_E10 = ("ConnLoop_dev_expect10", "ConnLoop_dev_expect10.cfg", CL, "NeverBeyondStop")
MECH = {"C03": ([RC_FREE], []), "C12": ([CL_ALL], [CL_KA]), "C09": ([RC_FREE], [RC_F4]), "C11": ([RC_HOLD, RC_FREE], []), "C18": ([RC_FREE], []),
        "C10": ([("WriterChain_quick", "WriterChain_quick.cfg", WC), CL_ALL], [("WriterChain_dev_F5", "WriterChain_dev_F5.cfg", WC, "EveryoneFinishes"), CL_E10]),
        "C13": ([RC_FREE], []), "C15": ([RC_FREE, SL_Q], [SL_UNWRAP])}

def _conn_prop(fam, nontrivial, rule, quick_runs=4, thorough_runs=30):
    return dict(tlc={"quick": MECH.get(fam, ([], []))[0], "thorough": MECH.get(fam, ([], []))[0]}, dev=MECH.get(fam, ([], []))[1], family=fam, drivers=["d1"] + (["d2"] if fam in D2_PROPS else []),
                d2={"quick": (60, 1), "thorough": (400, 2)} if fam in D2_PROPS else None,
                passes={"quick": [("mix", quick_runs, None)], "thorough": [("mix", thorough_runs, None), ("delay", 1, 60)]},
                nontrivial=nontrivial, rule=rule)

PROPS.update({
    "C02": _conn_prop("C02", r'"ev":"RecvRet".*"res":"req"', "heads: every valid header line over the abstract alphabet of specs/fn/HeadSyntax.tla (names of 1..2 symbols, raw values of 0..3/4 symbols, written by TLC together with their reference parse) concretised with seeded bytes, crossed with methods / targets / versions; 0..64 fields, duplicates, lines beyond the 1 KiB buffer; TCP and UNIX peers on the real-socket path (family C02); distinct = distinct traces", quick_runs=1, thorough_runs=2),
    "C03": _conn_prop("C03", r'"ev":"ReadRet".*"got":[1-9]', "scenarios: framing x length x chunking x header-name case x follower x read-size program (family C03); non-trivial = some body bytes were read"),
    "C09": _conn_prop("C09", r'"ev":"RecvRet".*"m":1,', "scenarios: body framing x consumption prefix x finish x follower (family C09); non-trivial = the follower request was delivered"),
    "C10": _conn_prop("C10", r'"ev":"CFrame".*"st":(400|417|505)|"ev":"CEof"', "scenarios: each malformed / unsupported class at every position of a 1..4 pipeline, neighbours answered fast or slow (family C10)"),
    "C11": _conn_prop("C11", r'"ev":"RecvRet".*"m":1,', "scenarios: pipelines of 2..8 requests over body kinds x {collect-then-answer, serve, read-to-EOF-then-wait} (family C11); non-trivial = a second request of the pipeline was delivered"),
    "C12": _conn_prop("C12", r'"ev":"CEof"', "scenarios: version x Connection header class at every pipeline position x trailing bytes x half-close (family C12)"),
    "C13": _conn_prop("C13", r'"ev":"CSend".*\n?', "scenarios: corpus conversation x segmentation (every single split / bytewise / random multi-way) (family C13)", quick_runs=1, thorough_runs=3),
    "C15": _conn_prop("C15", r'"ev":"C(Half|Close|Reset)"', "scenarios: corpus conversation x every cut offset x {half-close, close, reset}; response-side faults (family C15)", quick_runs=2, thorough_runs=10),
    "C16": _conn_prop("C16", r'"ev":"CFrame".*"st":400', "scenarios: whitespace around header names, invalid Content-Length classes, each followed by a would-be smuggled request (family C16)"),
    "C18": _conn_prop("C18", r'"ev":"Ask"', "scenarios: Expect present/absent x length x handler program x withholding client (family C18); non-trivial = the body was asked for"),
})

PROPS["C14"] = dict(tlc={"quick": [], "thorough": []}, dev=[], family="C14", drivers=["d2"],
    passes={"quick": [], "thorough": []}, d2={"quick": (100000, 1), "thorough": (100000, 2)}, d2_extra=["--crash-is-data"], d2_keep_transport=True,
    nontrivial=r'"ev":"Alloc"',
    rule="adversarial class product: Content-Length classes (0 .. beyond usize::MAX) x bytes actually sent x handler; chunk-size classes; header counts; line lengths up to 8 MiB; NUL/control/non-ASCII bytes at each head position; truncations (family C14). Real sockets, real process, tracking allocator and panic hook; a dying process is data. Class coverage with seeded bytes, NOT byte-level exhaustive")

LEVEL = {p: "model_checking" for p in PROPS}
LEVEL["C14"] = "exploration"

ASSUMPTIONS = [
    "vrt models the documented std semantics of Mutex/Condvar/mpsc/thread (sequentially consistent; no poisoning)",
    "the in-memory transport stands for TCP/UNIX sockets on D1 (one read = at most one segment)",
    "small-scope: TLC constants as listed under tlc_configs; driver executions as listed under executions",
]

def setup():
    vlib.build(("d1",))
    if os.path.exists(os.path.join(vlib.HARNESS, "d2/Cargo.toml")):
        vlib.build(("d2",))
    # parse every module
    bad = 0
    for d in ("mech", "judge", "fn", "trace", "mc"):
        for f in sorted(glob.glob(os.path.join(SPECS, d, "*.tla"))):
            rc, out = vlib.sh(["java", "-DTLA-Library=" + vlib.LIBPATH, "-cp", vlib.JAR, "tla2sany.SANY", os.path.basename(f)], cwd=os.path.dirname(f), timeout=120)
            if rc != 0 or "rror" in out.replace("errors: 0", ""):
                log("[sany] FAILED %s\n%s" % (f, out[-1500:]))
                bad += 1
    if bad:
        print("TOOL-ERROR %d specification modules do not parse" % bad)
        return 2
    log("[setup] ok")
    return 0

def driver_bin(d):
    return vlib.D1 if d == "d1" else vlib.D2

def run_passes(prop, scs, passes, seed, wdir):
    files = []
    for pi, (sched, a, b) in enumerate(passes):
        if sched == "demote":
            # systematic single demotion (a = executions per scenario at most, b = scenarios at most): the scenarios the
            # family marks for it, else a sample
            rng = random.Random("%s/demote/%d" % (prop, seed))
            sub = [s_ for s_ in scs if "demote" in s_.get("tags", [])]
            if len(sub) > b:
                sub = rng.sample(sub, b)
            rest = [s_ for s_ in scs if "demote" not in s_.get("tags", [])]
            if len(sub) < b and rest:
                sub = sub + rng.sample(rest, min(len(rest), b - len(sub)))
            extra = ["--sched", "demote", "--max-execs", str(a)]
            files += vlib.run_driver(vlib.D1, sub, os.path.join(wdir, "traces"), "p%d" % pi, extra)
        elif sched == "delay":
            rng = random.Random("%s/delay/%d" % (prop, seed))
            sub = scs if len(scs) <= 60 else rng.sample(scs, 60)
            extra = ["--sched", "delay", "--bound", str(a), "--max-execs", str(b)]
            files += vlib.run_driver(vlib.D1, sub, os.path.join(wdir, "traces"), "p%d" % pi, extra)
        else:
            extra = ["--sched", sched, "--seed", str(seed), "--runs", str(a)]
            files += vlib.run_driver(vlib.D1, scs, os.path.join(wdir, "traces"), "p%d" % pi, extra)
    return files

def sched_of(x, files):
    for fp in files:
        sp = fp + ".sched"
        if not os.path.exists(sp):
            continue
        with open(sp) as f:
            for line in f:
                if line.startswith('{"x":' + json.dumps(x) + ","):
                    return json.loads(line)
    return None

def run_check(prop, tier, seed):
    t0 = time.time()
    cfg = PROPS[prop]
    wdir = os.path.join(WORK, prop)
    shutil.rmtree(wdir, ignore_errors=True)
    os.makedirs(wdir, exist_ok=True)
    vlib.build(tuple(cfg["drivers"]))
    findings = vlib.load_findings()
    violations = []   # (kind, description, replay path)
    known_seen = {}
    # 1. model checking of the mechanism specification(s)
    tlc_results = []
    states = transitions = 0
    for (name, c, mod) in cfg["tlc"][tier]:
        # every configuration is time-boxed in the thorough tier (only the largest ever reach the limit) (a loaded machine must not turn them into tool errors)
        r = vlib.model_check(name, c, mod, timeout=600 if tier == "thorough" else 900, budget=(tier == "thorough"))
        tlc_results.append(r)
        states += r["states"]
        transitions += r["transitions"]
        log("[tlc] %s: %s, %d distinct states, %.1fs" % (name, r["result"], r["states"], r["wall_s"]))
        if r["result"] != "ok":
            p = os.path.join(wdir, "tlc_%s.json" % name)
            json.dump(r, open(p, "w"), indent=1)
            violations.append(("design", "mechanism spec %s violates %s with all deviations off" % (name, r.get("violated")), p))
    sens = []
    for (name, c, mod, inv) in cfg["dev"]:
        r = vlib.model_check(name, c, mod, expect_violation=inv, timeout=600)
        sens.append({"config": name, "expected": inv, "found": r.get("violated"), "sensitive": r["sensitive"], "depth": len(r.get("counterexample_actions", []))})
        log("[tlc] deviation %s: %s" % (name, "counterexample found" if r["sensitive"] else "NOT detected"))
        if not r["sensitive"]:
            raise ToolError("deviation configuration %s no longer yields its counterexample (model lost sensitivity)" % name)
    # 2. scenarios
    scs = families.FAMILIES[cfg["family"]](tier, seed)
    by_id = {s["id"]: s for s in scs}
    log("[gen] %d scenarios in family %s" % (len(scs), cfg["family"]))
    # 3. executions of the real code
    files = run_passes(prop, [s_ for s_ in scs if not s_.get("d2only")], cfg["passes"][tier], seed, wdir)
    ex, order = vlib.load_executions(files)
    reps, mult = vlib.dedup(ex, order)
    log("[run] %d executions, %d distinct traces" % (len(order), len(reps)))
    # 4. verdict: TLC trace validation against the judge
    viols, nlines = vlib.validate(ex, reps, os.path.join(wdir, "validate"))
    # 3a. fidelity of the mechanism specification: the marker events of the same executions must be
    #     behaviours of the mechanism spec (a measurement, never a verdict: DESIGN.md 2.1)
    fidelity = None
    if cfg.get("mech"):
        import mechtrace
        kind, mspec, mcfg = cfg["mech"]
        fn = mechtrace.queue_events if kind == "queue" else mechtrace.pool_events
        mex = []
        unmapped = 0
        seen_chains = {}
        for x in reps:
            if kind == "writer":
                # one chain of writers per connection; every distinct chain history is validated once
                for ci, evs in enumerate(mechtrace.writer_chains(ex[x])):
                    if evs is None:
                        unmapped += 1
                        continue
                    key = json.dumps(evs, sort_keys=True)
                    if key in seen_chains:
                        seen_chains[key] += 1
                    else:
                        seen_chains[key] = 1
                        mex.append(("%s/chain%d" % (x, ci), evs))
                continue
            evs = fn(ex[x])
            if evs is None:
                unmapped += 1
            else:
                mex.append((x, evs))
        acc, div = mechtrace.validate_mech(mspec, mcfg, mex, os.path.join(wdir, "mech"), kind)
        walks = None
        if kind in ("queue", "pool"):
            nwalk = (2000 if tier == "quick" else 20000) if kind == "queue" else (600 if tier == "quick" else 6000)
            walks = mechtrace.spec_walks(nwalk, os.path.join(wdir, "walks"), seed, kind)
            log("[walk] %d TLC-generated behaviours of mech/%s stepped through the real code: %d conform, %d actions executed" % (
                walks["behaviours_generated_by_tlc"], "MsgQueue" if kind == "queue" else "TaskPool", walks["conform"], walks["actions_executed_on_the_real_code"]))
        fidelity = {"spec_to_impl_walks": walks, "mechanism_spec": mspec, "executions": len(mex), "accepted": acc, "divergences": div[:10],
                    "n_divergences": len(div), "unmappable": unmapped, "marker_events": sum(len(e) for _, e in mex)}
        if kind == "writer":
            fidelity["chains_observed"] = sum(seen_chains.values())
            fidelity["distinct_chain_histories"] = len(seen_chains)
        log("[mech] %d/%d executions are behaviours of %s (%d marker events, %d divergences)" % (acc, len(mex), mspec, fidelity["marker_events"], len(div)))
    # 3a'. a second mechanism specification bound to the same executions (the life of the listening socket)
    fidelity2 = None
    if cfg.get("mech2"):
        import mechtrace
        kind2, mspec2, mcfg2 = cfg["mech2"]
        mex2 = []
        unmapped2 = 0
        seen2 = {}
        for x in reps:
            evs = mechtrace.server_events(ex[x])
            if evs is None:
                unmapped2 += 1
                continue
            key = json.dumps(evs, sort_keys=True)
            if key in seen2:
                seen2[key] += 1
            else:
                seen2[key] = 1
                mex2.append((x, evs))
        acc2, div2 = mechtrace.validate_mech(mspec2, mcfg2, mex2, os.path.join(wdir, "mech2"), kind2)
        fidelity2 = {"mechanism_spec": mspec2, "executions": sum(seen2.values()), "distinct_histories": len(mex2), "accepted_histories": acc2,
                     "divergences": div2[:10], "n_divergences": len(div2), "unmappable": unmapped2, "marker_events": sum(len(e) for _, e in mex2)}
        log("[mech] %d/%d distinct listening-socket histories (of %d executions) are behaviours of %s (%d marker events, %d divergences)" % (
            acc2, len(mex2), sum(seen2.values()), mspec2, fidelity2["marker_events"], len(div2)))
    # 3b. second, hook-free path: the same scenarios over real TCP / UNIX sockets (ordinary build)
    d2info = None
    order2, reps2, ex2 = [], [], {}
    if cfg.get("d2"):
        nsc, nruns = cfg["d2"][tier]
        rng = random.Random("%s/d2/%d" % (prop, seed))
        # scenarios that only make sense on real sockets always run there; the rest is sampled
        only2 = [s_ for s_ in scs if s_.get("d2only")]
        rest = [s_ for s_ in scs if not s_.get("d2only")]
        sub = [dict(s_) for s_ in only2 + (rest if len(rest) <= nsc else rng.sample(rest, nsc)) if not s_.get("d1only")]
        sub = [dict(s_) for s_ in (scs if len(scs) <= nsc else rng.sample(scs, nsc))] if cfg.get("d2_keep_transport") else sub
        for i, s_ in enumerate(sub):
            if not cfg.get("d2_keep_transport"):
                s_["transport"] = "unix" if i % 5 == 4 else "tcp"
            s_["judge"] = dict(s_["judge"], transport=s_["transport"])
        f2 = vlib.run_driver(vlib.D2, sub, os.path.join(wdir, "traces_d2"), "d2", ["--runs", str(nruns), "--quiet-ms", "150"] + cfg.get("d2_extra", []), procs=12)
        ex2, order2 = vlib.load_executions(f2)
        reps2, _m2 = vlib.dedup(ex2, order2, keep_now=False)
        v2, n2 = vlib.validate(ex2, reps2, os.path.join(wdir, "validate_d2"))
        suspects = sorted(set(v["x"].split("#")[0] for v in v2 if v["prop"] == prop))
        confirmed = []
        if suspects:
            # a violation on real threads must survive a re-run with a much longer settle time
            bys = {s_["id"]: s_ for s_ in sub}
            f3 = vlib.run_driver(vlib.D2, [bys[x] for x in suspects], os.path.join(wdir, "traces_d2c"), "d2c", ["--runs", "2", "--quiet-ms", "2500"] + cfg.get("d2_extra", []), procs=8)
            ex3, order3 = vlib.load_executions(f3)
            v3, n3 = vlib.validate(ex3, order3, os.path.join(wdir, "validate_d2c"))
            confirmed = [v for v in v3 if v["prop"] == prop]
            for v in confirmed:
                v["x"] = v["x"] + "@d2"
                ex[v["x"]] = ex3[v["x"][:-3]]
            viols += confirmed
            files += f3
        d2info = {"scenarios": len(sub), "executions": len(order2), "distinct_traces": len(reps2), "suspects": len(suspects),
                  "confirmed_violations": len(confirmed), "trace_lines_validated": n2}
        log("[d2] %d executions over real sockets, %d suspects, %d confirmed" % (len(order2), len(suspects), len(confirmed)))
    if d2info is not None:
        # executions over real sockets count too (for C14 they are the only ones)
        for x in order2:
            ex.setdefault(x + "@d2", ex2[x])
        order = order + [x + "@d2" for x in order2]
        reps = reps + [x + "@d2" for x in reps2]
        nlines += d2info["trace_lines_validated"]
    mine = [v for v in viols if v["prop"] == prop]
    others = {}
    for v in viols:
        if v["prop"] != prop:
            others.setdefault(v["prop"] + ":" + v["guard"], 0)
            others[v["prop"] + ":" + v["guard"]] += 1
    byx = {}
    for v in mine:
        byx.setdefault(v["x"], []).append(v)
    os.makedirs(os.path.join(wdir, "replay"), exist_ok=True)
    reported = set()
    for x, vs in byx.items():
        sid = x.split("#")[0]
        sc = by_id.get(sid, {})
        if x.endswith("@d2"):
            sc = dict(sc, transport="tcp")
        unknown = []
        for v in vs:
            f = vlib.match_finding(v, sc, findings)
            if f is not None:
                known_seen.setdefault(f["id"], {"finding": f, "count": 0, "example": x})
                known_seen[f["id"]]["count"] += 1
            else:
                unknown.append(v)
        if unknown:
            key = (sid, tuple(sorted(set(v["guard"] for v in unknown))))
            if key in reported:
                continue
            reported.add(key)
            rp = os.path.join(wdir, "replay", re.sub(r"[^A-Za-z0-9_.-]", "_", x) + ".json")
            sch = sched_of(x, files)
            json.dump({"property": prop, "execution": x, "scenario": sc, "schedule": sch,
                       "violations": unknown, "trace": [json.loads(l) for l in ex[x]]}, open(rp, "w"))
            violations.append(("impl", "%s: %s" % (x, ",".join(sorted(set(v["guard"] for v in unknown)))), rp))
    # 5. evidence
    nt = re.compile(cfg["nontrivial"])
    distinct_nt = sum(1 for x in reps if any(nt.search(l) for l in ex[x]))
    samples = []
    for x in reps[:2]:
        samples.append({"execution": x, "scenario_tags": by_id.get(x.split("#")[0], {}).get("tags", []),
                        "events": [json.loads(l) for l in ex[x][:40]]})
    coverage = {
        "states": max(states, 1) if cfg["tlc"][tier] else len(reps),
        "transitions": max(transitions, 1) if cfg["tlc"][tier] else nlines,
        "traces_validated_against_impl": len(reps),
        "samples": samples,
        "evaluations": len(order),
        "distinct_nontrivial": distinct_nt,
        "rule": cfg["rule"],
        "exhaustive": False,
        "tlc_configs": tlc_results,
        "deviation_sensitivity": sens,
        "scenarios": len(scs),
        "executions": len(order),
        "distinct_traces": len(reps),
        "trace_lines_validated": nlines,
        "schedulers": [{"kind": p[0], "runs_or_bound": p[1], "max_execs": p[2]} for p in cfg["passes"][tier]],
        "judge": "specs/trace/T_Judge.tla (AbsConn, AbsQueue, AbsPool) evaluated by TLC on every distinct trace",
        "known_findings_seen": {k: v["count"] for k, v in known_seen.items()},
        "seen_for_other_properties": others,
        "real_socket_path": d2info,
        "mechanism_fidelity": fidelity,
        "mechanism_fidelity_listening_socket": fidelity2,
    }
    if not cfg["tlc"][tier]:
        coverage["explanation"] = "no mechanism configuration for this tier: states/transitions count judge states of the validated traces"
    vlib.write_evidence(prop, tier, seed, LEVEL[prop], coverage, time.time() - t0, len(violations), ASSUMPTIONS)
    for k, v in known_seen.items():
        print("KNOWN-FINDING: property=%s %s (%s; %d executions, e.g. %s)" % (prop, v["finding"]["what_fails"], k, v["count"], v["example"]))
    for kind, desc, path in violations:
        print("VIOLATION property=%s replay=%s" % (prop, path))
        log("  (%s) %s" % (kind, desc))
    log("[done] %s tier=%s: %d executions, %d distinct traces, %d violations, %.1fs" % (prop, tier, len(order), len(reps), len(violations), time.time() - t0))
    return 1 if violations else 0

def replay(path):
    r = json.load(open(path))
    prop = r["property"]
    if "scenario" not in r:
        print(json.dumps(r, indent=1)[:4000])
        return 0
    vlib.build(("d1",))
    wdir = os.path.join(WORK, "replay")
    shutil.rmtree(wdir, ignore_errors=True)
    os.makedirs(wdir)
    sp = os.path.join(wdir, "s.ndjson")
    open(sp, "w").write(json.dumps(r["scenario"]) + "\n")
    ch = ",".join(str(c) for c in (r.get("schedule") or {}).get("choices", []))
    tp = os.path.join(wdir, "t.ndjson")
    rc, out = vlib.sh([vlib.D1, "run", "--scenarios", sp, "--out", tp, "--sched", "replay", "--choices", ch], timeout=600)
    if rc != 0:
        raise ToolError("replay run failed: " + out[-1000:])
    ex, order = vlib.load_executions([tp])
    viols, n = vlib.validate(ex, order, os.path.join(wdir, "validate"))
    mine = [v for v in viols if v["prop"] == prop]
    for l in ex[order[0]]:
        log(l)
    if mine:
        print("VIOLATION property=%s replay=%s" % (prop, path))
        for v in mine:
            log("  line %d: %s" % (v["line"], v["guard"]))
        return 1
    log("replayed execution is accepted by the judge (the violation did not reproduce on this tree)")
    return 0

def selftest():
    log("selftest: see tools/selftest.py")
    import selftest as st
    return st.main()

# ------------------------------------------------------------------------------------------------
# function-level properties (D3): TLC generates the abstract case product, the direct-API driver
# runs every case against the real Response code, TLC judges every observation

FN_PROPS = {
    "C04": dict(gen="genC04", rule="full product status x body length x declared x threshold x version x HEAD x TE x reader piece size (MC_Fn!C04Cases), written by TLC; every case run through Response::raw_print and parsed by the harness's independent client parser; distinct = distinct abstract cases"),
    "C05": dict(gen="genC05", rule="full product version x status class x length class x threshold x TE header (all entries, pairs, triples per tier) x HEAD/upgrade (MC_Fn!C05Cases), written by TLC; decision table checked against the statement's clauses and the code-shaped transcription over the whole domain; distinct = distinct abstract cases"),
    "C19": dict(gen="genC19", rule="header lists over eleven name classes x entry route x letter case (MC_Fn!C19Cases) plus the constructors, written by TLC; distinct = distinct abstract cases"),
}

def fn_tlc(mode, tier, out, obs, name, timeout=1800):
    env = {"FN_MODE": mode, "FN_TIER": tier, "FN_OUT": out, "FN_OBS": obs}
    rc, o, wall = vlib.tlc(name, "MC_Fn.cfg", "MC_Fn.tla", os.path.join(SPECS, "mc"), workers=1, timeout=timeout, env=env,
                           java_opts="-Xmx12g -Xss1g", extra=["-maxSetSize", "40000000"])
    if "Model checking completed. No error has been found" not in o:
        raise ToolError("MC_Fn (%s) failed:\n%s" % (mode, o[-3000:]))
    return o, wall

def run_fn_check(prop, tier, seed):
    t0 = time.time()
    cfg = FN_PROPS[prop]
    wdir = os.path.join(WORK, prop)
    shutil.rmtree(wdir, ignore_errors=True)
    os.makedirs(wdir, exist_ok=True)
    vlib.build(("d1",))
    findings = vlib.load_findings()
    tlc_results = []
    states = 0
    if prop == "C05":
        o, wall = fn_tlc("domain", tier, "/dev/null", "/dev/null", "fn_domain")
        m = re.search(r'<<"DOMAIN-OK", (\d+)>>', o)
        if not m:
            raise ToolError("domain check gave no result:\n" + o[-2000:])
        states += int(m.group(1))
        tlc_results.append({"config": "MC_Fn domain (NeverChunkedOld, NeverChunked1xx204, ThresholdRule, ChooseAgrees over C05Cases)", "cases": int(m.group(1)), "result": "ok", "wall_s": round(wall, 1)})
        log("[tlc] decision table checked on %s abstract cases (%.1fs)" % (m.group(1), wall))
    cases = os.path.join(wdir, "cases.ndjson")
    o, wall = fn_tlc(cfg["gen"], tier, cases, "/dev/null", "fn_gen")
    ncases = int(re.search(r'<<"GEN", (\d+)>>', o).group(1))
    tlc_results.append({"config": "MC_Fn " + cfg["gen"], "cases": ncases, "result": "ok", "wall_s": round(wall, 1)})
    log("[gen] %d abstract cases written by TLC (%.1fs)" % (ncases, wall))
    # run the cases in parallel shards
    lines = open(cases).read().splitlines()
    nsh = 12
    import concurrent.futures as cf
    def runshard(i):
        sp = os.path.join(wdir, "cases.%d.ndjson" % i)
        op = os.path.join(wdir, "obs.%d.ndjson" % i)
        with open(sp, "w") as f:
            f.write("\n".join(lines[i::nsh]) + "\n")
        rc, out = vlib.sh([vlib.D1, "fn", "--cases", sp, "--out", op, "--prop", prop, "--seed", str(seed * 100 + i)], timeout=1800,
                          env={"VERIF_TMP": wdir})
        if rc != 0:
            raise ToolError("direct-API driver failed: " + out[-1500:])
        return op
    with cf.ThreadPoolExecutor(max_workers=nsh) as ex:
        obsfiles = list(ex.map(runshard, range(nsh)))
    # judge: TLC evaluates the guards on every observation (chunks in parallel)
    allobs = []
    for op in obsfiles:
        allobs += open(op).read().splitlines()
    # the C19 constructor cases are appended by every shard: keep one copy
    seen = set()
    uniq = []
    for l in allobs:
        key = l if '"C19-ctor-' not in l else re.sub(r'"datevalid":(true|false),', "", l)
        if '"C19-ctor-' in l:
            k2 = re.search(r'"id":"(C19-ctor-[^"]*)"', l).group(1)
            if k2 in seen:
                continue
            seen.add(k2)
        uniq.append(l)
    allobs = uniq
    chunk = 20000
    chunks = [allobs[i:i + chunk] for i in range(0, len(allobs), chunk)]
    def judge(i):
        p = os.path.join(wdir, "judge.%d.ndjson" % i)
        open(p, "w").write("\n".join(chunks[i]) + "\n")
        o, wall = fn_tlc("check", tier, "/dev/null", p, "fn_check_%s_%d" % (prop, i))
        done = re.search(r'<<"DONE", (\d+)>>', o)
        if not done or int(done.group(1)) != len(chunks[i]):
            raise ToolError("observation check incomplete:\n" + o[-2000:])
        return re.findall(r'<<"VIOL", "([^"]*)", (\d+), "(\w+)", "(\w+)">>', o), i
    viols = []
    with cf.ThreadPoolExecutor(max_workers=6) as ex:
        for vs, i in ex.map(judge, range(len(chunks))):
            for (cid, idx, p, g) in vs:
                viols.append({"x": cid, "line": int(idx), "prop": p, "guard": g, "obs": json.loads(chunks[i][int(idx) - 1])})
    mine = [v for v in viols if v["prop"] == prop]
    os.makedirs(os.path.join(wdir, "replay"), exist_ok=True)
    violations = []
    known_seen = {}
    seen_sig = set()
    for v in mine:
        f = vlib.match_finding(v, {"tags": []}, findings)
        if f is not None:
            known_seen.setdefault(f["id"], {"finding": f, "count": 0, "example": v["x"]})
            known_seen[f["id"]]["count"] += 1
            continue
        sig = (v["guard"], json.dumps({k: v["obs"]["case"].get(k) for k in ("ver", "st", "status", "len", "thr", "head", "upg", "route")}, sort_keys=True))
        if sig in seen_sig or len(violations) >= 25:
            continue
        seen_sig.add(sig)
        rp = os.path.join(wdir, "replay", v["x"] + ".json")
        json.dump({"property": prop, "case_id": v["x"], "guard": v["guard"], "observation": v["obs"], "kind": "fn"}, open(rp, "w"), indent=1)
        violations.append(("impl", "%s: %s" % (v["x"], v["guard"]), rp))
    samples = [json.loads(l) for l in allobs[:3]]
    coverage = {
        "states": max(states, ncases), "transitions": len(allobs), "traces_validated_against_impl": len(allobs),
        "samples": samples, "evaluations": len(allobs), "distinct_nontrivial": ncases, "rule": cfg["rule"],
        "exhaustive": True, "tlc_configs": tlc_results, "cases_generated_by_tlc": ncases, "observations_judged_by_tlc": len(allobs),
        "violating_observations": len(mine),
        "explanation": "states = abstract cases enumerated by TLC; transitions / traces_validated = observations of the real code judged by TLC (one per case)",
        "known_findings_seen": {k: v["count"] for k, v in known_seen.items()},
    }
    vlib.write_evidence(prop, tier, seed, "model_checking", coverage, time.time() - t0, len(violations),
                        ["class-exhaustive over the abstract domain; bytes inside a class are seeded samples", "the harness's client parser (harness/common/src/httpc.rs) is the reference for well-formedness"])
    for k, v in known_seen.items():
        print("KNOWN-FINDING: property=%s %s (%s; %d cases, e.g. %s)" % (prop, v["finding"]["what_fails"], k, v["count"], v["example"]))
    for kind, desc, path in violations:
        print("VIOLATION property=%s replay=%s" % (prop, path))
        log("  (%s) %s" % (kind, desc))
    log("[done] %s tier=%s: %d cases, %d violating observations, %.1fs" % (prop, tier, len(allobs), len(mine), time.time() - t0))
    return 1 if violations else 0
