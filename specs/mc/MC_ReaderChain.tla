-------------------------- MODULE MC_ReaderChain --------------------------
EXTENDS ReaderChain
Kinds == {"none", "small", "large", "chunked"}
Pipes2 == {<<a, b>> : a \in Kinds, b \in Kinds}
Pipes3 == {<<a, b, c>> : a \in Kinds, b \in Kinds, c \in Kinds}
AllPipes == Pipes2 \cup Pipes3
=============================================================================
