#!/bin/sh
# usage: confirm_mutant.sh <worktree>   -- independent confirmation of a seeded change:
#   (1) existing suite passes with the change, (2) demo fails with it, (3) demo passes without it
d="$1"; cd "$d" || exit 2
git diff -- src > patch.diff
mv tests/demo_mut.rs /tmp/$(basename $d)_demo.rs
timeout 900 cargo test --offline --no-fail-fast > /tmp/$(basename $d)_suite.log 2>&1
suite=$(grep -E "^test result" /tmp/$(basename $d)_suite.log | awk '{p+=$4; f+=$6} END {print p" passed "f" failed"}')
mv /tmp/$(basename $d)_demo.rs tests/demo_mut.rs
timeout 600 cargo test --offline --test demo_mut > /tmp/$(basename $d)_with.log 2>&1; with=$?
git apply -R patch.diff
timeout 600 cargo test --offline --test demo_mut > /tmp/$(basename $d)_without.log 2>&1; without=$?
git apply patch.diff
echo "$(basename $d): suite-with-change: $suite; demo with change exit=$with (expect !=0); demo without change exit=$without (expect 0)"
