import sys
pid=sys.argv[1]
prop=open('/tmp/prop_%s.txt'%pid).read()
print(f"""You are helping to evaluate a verification framework by creating a realistic, subtle bug ("seeded change") in a Rust library.

The library is tiny-http (a small synchronous HTTP/1.1 server library in Rust). You have your own scratch git worktree of it at /tmp/mut_{pid} (work ONLY inside that directory; never touch /repo or /verif, and do not read anything under /verif). The sandbox has no network; use `cargo build --offline` / `cargo test --offline`. Always wrap test runs and any program you run in `timeout` (e.g. `timeout 300 cargo test --offline`), because a broken server can hang forever.

The property the change must break:

{prop}

Your task: make ONE small source change to the library under /tmp/mut_{pid}/src (a few lines, the kind of mistake a maintainer could plausibly make during a refactoring or an optimisation) such that:
 1. the crate still compiles without new errors;
 2. the existing test suite still passes: `cd /tmp/mut_{pid} && timeout 600 cargo test --offline` (all tests green);
 3. the property above is violated, but ONLY under something specific: a particular thread interleaving or timing, a fault at a particular point, a multi-step sequence of operations, an unusual (but within the quantifier above) input, or two cooperating sites that each look fine alone. A change that ordinary use exposes at once (e.g. every response is broken) is NOT wanted.
 4. Do not touch lines guarded by `#[cfg(tiny_http_verif)]` and keep those attributes intact (they are instrumentation hooks that are inactive in normal builds).

Also write a demonstration: a new integration test file /tmp/mut_{pid}/tests/demo_mut.rs (using only std and the crate's public API, real TCP sockets on 127.0.0.1:0, with generous but bounded timeouts so it can never hang: use read timeouts / recv_timeout) that FAILS with your change and PASSES on the original code. Verify both: run it with your change (`timeout 300 cargo test --offline --test demo_mut`) and see it fail, then `git stash` ONLY the src change (keep the demo file, e.g. `git stash push src`), run it again and see it pass, then `git stash pop`. If the manifestation is probabilistic (a race), loop inside the test enough times to make failure likely (say >80%) with the change while still always passing without it.

When done, leave in the worktree:
 - the source change applied (uncommitted),
 - /tmp/mut_{pid}/patch.diff  = output of `git diff -- src` (only the library change),
 - /tmp/mut_{pid}/tests/demo_mut.rs,
 - /tmp/mut_{pid}/NOTES.md: 5-10 lines: what you changed, why it breaks the property, what it needs to manifest, the exact commands you ran and their observed results (existing tests pass; demo fails with / passes without).

Read the library source first (src/lib.rs, src/client.rs, src/request.rs, src/response.rs, src/util/*.rs) to find a good spot. Prefer a change in the mechanism the property depends on. Be creative: do not just revert the most recent commit (look at `git log` only for orientation). Report back briefly what you did and whether all verifications succeeded.""")
