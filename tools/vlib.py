"""Shared machinery of /verif/check: builds, TLC runs, driver runs, trace validation, evidence."""
import concurrent.futures as cf
import hashlib, json, os, re, shutil, subprocess, sys, time

# normally /verif; an isolated evaluation runs a scratch copy of the whole tree
VERIF = os.path.dirname(os.path.dirname(os.path.realpath(__file__)))
# an isolated evaluation (tools/isolated.py) redirects the scratch, harness and evidence directories
WORK = os.environ.get("VERIF_WORK", os.path.join(VERIF, "work"))
HARNESS = os.environ.get("VERIF_HARNESS", os.path.join(VERIF, "harness"))
EVIDENCE = os.environ.get("VERIF_EVIDENCE", os.path.join(VERIF, "evidence"))
SPECS = os.path.join(VERIF, "specs")
JAR = "/opt/veriftools/tla/tla2tools.jar:/opt/veriftools/tla/CommunityModules-deps.jar"
LIBPATH = ":".join(os.path.join(SPECS, d) for d in ("mech", "judge", "fn", "trace", "mc"))
D1 = os.path.join(HARNESS, "d1/target/release/d1")
D2 = os.path.join(HARNESS, "d2/target/release/d2")

class ToolError(Exception):
    pass

def log(*a):
    print(*a, flush=True)

def sh(cmd, cwd=None, timeout=None, env=None):
    e = dict(os.environ)
    if env:
        e.update(env)
    p = subprocess.run(cmd, cwd=cwd, timeout=timeout, env=e, stdout=subprocess.PIPE, stderr=subprocess.STDOUT, text=True)
    return p.returncode, p.stdout

def build(which=("d1",)):
    """rebuild the drivers from /repo's current working tree"""
    for w in which:
        d = os.path.join(HARNESS, w)
        t0 = time.time()
        rc, out = sh(["cargo", "build", "--release", "--offline"], cwd=d, timeout=1200,
                     env={"CARGO_NET_OFFLINE": "true"})
        if rc != 0:
            tail = "\n".join(l for l in out.splitlines() if not l.startswith("warning"))[-3000:]
            raise ToolError("build of %s failed:\n%s" % (w, tail))
        log("[build] %s ok (%.1fs)" % (w, time.time() - t0))

# --------------------------------------------------------------------------------------------
# TLC

def tlc(name, cfg, module, cwd, workers=6, timeout=900, extra=None, env=None, java_opts="-Xmx6g -Xss64m", budget=False):
    meta = os.path.join(WORK, "tlc", name)
    shutil.rmtree(meta, ignore_errors=True)
    os.makedirs(meta, exist_ok=True)
    jtmp = os.path.join(meta, "jtmp")          # TLC leaves an empty tlc-<n> directory per run in java.io.tmpdir
    os.makedirs(jtmp, exist_ok=True)
    cmd = ["java", "-XX:+UseParallelGC", "-Djava.io.tmpdir=" + jtmp] + java_opts.split() + ["-DTLA-Library=" + LIBPATH, "-cp", JAR, "tlc2.TLC",
           "-workers", str(workers), "-metadir", meta, "-cleanup", "-noGenerateSpecTE", "-config", cfg] + (extra or []) + [module]
    t0 = time.time()
    try:
        rc, out = sh(cmd, cwd=cwd, timeout=timeout, env=env)
    except subprocess.TimeoutExpired as ex:
        if budget:
            # a time-boxed exploration: what TLC had explored when the time was up (no error reported until then)
            part = ex.output if isinstance(ex.output, str) else (ex.output or b"").decode("utf-8", "replace")
            return -9, part + "\nTIME-BUDGET-EXHAUSTED\n", time.time() - t0
        raise ToolError("TLC %s timed out after %ss" % (name, timeout))
    finally:
        shutil.rmtree(meta, ignore_errors=True)
    return rc, out, time.time() - t0

def tlc_stats(out):
    m = re.search(r"(\d+) states generated, (\d+) distinct states found", out)
    d = re.search(r"depth of the complete state graph search is (\d+)", out)
    return {"generated": int(m.group(1)) if m else 0, "distinct": int(m.group(2)) if m else 0,
            "depth": int(d.group(1)) if d else 0}

def model_check(name, cfg, module, expect_violation=None, workers=6, timeout=900, budget=False):
    """run a mechanism configuration. Returns a dict; raises ToolError on tool problems.
    expect_violation: name of the invariant a deviation configuration must violate.
    budget: the configuration is explored breadth-first for at most `timeout` seconds; running out of time is not
    an error (the result says how far TLC got), a violation found within the time is reported as usual."""
    rc, out, wall = tlc(name, cfg, module, os.path.join(SPECS, "mc"), workers=workers, timeout=timeout, budget=budget)
    st = tlc_stats(out)
    if "TIME-BUDGET-EXHAUSTED" in out and not re.search(r"is violated|was violated|were violated|Error:", out):
        pr = re.findall(r"Progress\((\d+)\) at [^:]*:[^:]*:[^:]*: ([\d,]+) states generated[^\n]*?, ([\d,]+) distinct states found", out)
        if not pr:
            raise ToolError("TLC %s: no progress within %ss:\n%s" % (name, timeout, out[-1500:]))
        depth, gen, dist = pr[-1]
        return {"config": name, "states": int(dist.replace(",", "")), "transitions": int(gen.replace(",", "")), "depth": int(depth),
                "wall_s": round(wall, 1), "result": "ok", "complete": False,
                "note": "time-boxed breadth-first exploration: no invariant violated in the states reached within %ss (all states up to about depth %s)" % (timeout, depth)}
    viol = re.search(r"Invariant (\w+) is violated|Temporal property (\w+) was violated|Temporal properties were violated|Error: Deadlock reached", out)
    res = {"config": name, "states": st["distinct"], "transitions": st["generated"], "depth": st["depth"], "wall_s": round(wall, 1)}
    if "Model checking completed. No error has been found" in out:
        res["result"] = "ok"
    elif viol:
        res["result"] = "violated"
        res["violated"] = viol.group(1) or viol.group(2) or viol.group(0)
        tr = out[out.find("Error: The behavior up to this point is:"):]
        res["counterexample_actions"] = re.findall(r"State \d+: <(\w+)", tr)
    else:
        raise ToolError("TLC %s: unexpected output:\n%s" % (name, out[-2500:]))
    if expect_violation is not None:
        res["expected_violation"] = expect_violation
        res["sensitive"] = res["result"] == "violated" and res.get("violated") == expect_violation
    return res

# --------------------------------------------------------------------------------------------
# drivers

def shard(scs, n):
    out = [[] for _ in range(n)]
    for i, s in enumerate(scs):
        out[i % n].append(s)
    return [s for s in out if s]

def run_driver_shard(args):
    binp, scen_path, out_path, extra = args
    crash_ok = "--crash-is-data" in extra
    extra = [a for a in extra if a != "--crash-is-data"]
    skip = 0
    outs = []
    part = 0
    while True:
        op = out_path if part == 0 else "%s.p%d" % (out_path, part)
        cmd = [binp, "run", "--scenarios", scen_path, "--out", op, "--skip", str(skip)] + extra
        try:
            p = subprocess.run(cmd, stdout=subprocess.PIPE, stderr=subprocess.PIPE, text=True, timeout=3600,
                               env=dict(os.environ, VERIF_SOCK_DIR=os.path.join(WORK, "sock")))
        except subprocess.TimeoutExpired:
            return outs, "timeout"
        outs.append(op)
        m = re.search(r"PARTIAL next_skip=(\d+)", p.stdout)
        if p.returncode == 3 and m:
            skip = int(m.group(1))
            part += 1
            continue
        if p.returncode != 0 and (p.returncode < 0 or p.returncode in (101, 134, 137, 139)) and crash_ok:
            # the process died (abort / signal) while running a scenario: that is data, not a tool
            # error. The victim is the scenario after the last completed execution.
            done = set()
            try:
                with open(op) as f:
                    for line in f:
                        m = _strip.match(line)
                        if m and '"ev":"End"' in line:
                            done.add(m.group(1).split("#")[0])
            except FileNotFoundError:
                pass
            scs = [json.loads(l) for l in open(scen_path) if l.strip()]
            victim = None
            for i, s_ in enumerate(scs):
                if i < skip:
                    continue
                if s_["id"] not in done:
                    victim = (i, s_)
                    break
            if victim is None:
                return outs, "driver died (%d) but no victim found" % p.returncode
            i, s_ = victim
            x = s_["id"] + "#0"
            with open(op, "a") as f:
                f.write(json.dumps({"x": x, "i": 0, "th": "ctl", "now": 0, "ev": "Scenario", "sid": s_["id"], "prop": s_["prop"],
                                    "drv": "d2", "j": s_["judge"]}, separators=(",", ":")) + "\n")
                f.write(json.dumps({"x": x, "i": 1, "th": "ctl", "now": 0, "ev": "Abort", "code": p.returncode,
                                    "stderr": p.stderr[-300:]}, separators=(",", ":")) + "\n")
                f.write(json.dumps({"x": x, "i": 2, "th": "ctl", "now": 0, "ev": "End", "clean": False, "leaked": [], "steps": 0}, separators=(",", ":")) + "\n")
            skip = i + 1
            part += 1
            if skip >= len(scs):
                return outs, None
            continue
        if p.returncode != 0:
            return outs, "driver exit %d: %s %s" % (p.returncode, p.stdout[-500:], p.stderr[-1500:])
        return outs, None

def run_driver(binp, scs, outdir, tag, extra, procs=12):
    """run scenarios on a driver in parallel; returns list of trace files"""
    os.makedirs(outdir, exist_ok=True)
    jobs = []
    for i, sh_ in enumerate(shard(scs, procs)):
        sp = os.path.join(outdir, "%s.scen.%d.ndjson" % (tag, i))
        with open(sp, "w") as f:
            for s in sh_:
                f.write(json.dumps(s, separators=(",", ":")) + "\n")
        jobs.append((binp, sp, os.path.join(outdir, "%s.trace.%d.ndjson" % (tag, i)), extra))
    files = []
    with cf.ThreadPoolExecutor(max_workers=procs) as ex:
        for outs, err in ex.map(run_driver_shard, jobs):
            if err:
                raise ToolError("driver failed: " + err)
            files += outs
    return files

_strip = re.compile(r'^\{"x":"((?:[^"\\]|\\.)*)","i":\d+,')

def load_executions(files, keep_now=True):
    """group trace lines by execution; returns dict x -> list of lines"""
    ex = {}
    order = []
    for fp in files:
        with open(fp) as f:
            for line in f:
                m = _strip.match(line)
                if not m:
                    continue
                x = m.group(1)
                if x not in ex:
                    ex[x] = []
                    order.append(x)
                ex[x].append(line.rstrip("\n"))
    return ex, order

def signature(lines, keep_now=True):
    h = hashlib.sha1()
    for l in lines:
        if '"ev":"mark"' in l:
            continue        # mechanism markers are not judge-level observations
        body = _strip.sub("{", l)
        body = re.sub(r'^\{"th":"[^"]*",', "{", body)
        if not keep_now:
            body = re.sub(r'"now":\d+,', "", body)
        h.update(body.encode())
        h.update(b"\n")
    return h.hexdigest()

def dedup(ex, order, keep_now=True):
    seen = {}
    reps = []
    for x in order:
        sg = signature(ex[x], keep_now)
        if sg in seen:
            seen[sg][1] += 1
        else:
            seen[sg] = [x, 1]
            reps.append(x)
    return reps, {v[0]: v[1] for v in seen.values()}

def validate_chunk(args):
    idx, path, outdir = args
    env = {"TRACE": path, "JAVA_TOOL_OPTIONS": "-Dtlc2.tool.queue.IStateQueue=StateDeque"}
    rc, out, wall = tlc("tj_%s_%d" % (os.path.basename(outdir), idx), "T_Judge.cfg", "T_Judge.tla", os.path.join(SPECS, "trace"),
                        workers=1, timeout=3000, env=env, java_opts="-Xmx3g -Xss1g")
    viols = re.findall(r'<<"VIOL", "((?:[^"\\]|\\.)*)", (\d+), "(\w+)", "(\w+)">>', out)
    done = re.search(r'<<"DONE", (\d+), (\d+)>>', out)
    ok = done is not None and int(done.group(2)) == int(done.group(1)) + 1 and "Model checking completed. No error" in out
    return idx, viols, ok, out if not ok else "", wall

def validate(ex, reps, outdir, chunk_lines=15000, procs=8):
    """TLC trace validation of the representative executions against the judge.
    returns (violations, lines_validated, walls). violations: list of dict(x, line, prop, guard)"""
    os.makedirs(outdir, exist_ok=True)
    chunks = []
    cur, n = [], 0
    for x in reps:
        cur.append(x)
        n += sum(1 for l_ in ex[x] if '"ev":"mark"' not in l_)
        if n >= chunk_lines:
            chunks.append(cur)
            cur, n = [], 0
    if cur:
        chunks.append(cur)
    jobs = []
    linemap = {}
    for i, ch in enumerate(chunks):
        p = os.path.join(outdir, "val.%d.ndjson" % i)
        with open(p, "w") as f:
            ln = 0
            for x in ch:
                for l in ex[x]:
                    if '"ev":"mark"' in l:
                        continue
                    ln += 1
                    f.write(l + "\n")
        jobs.append((i, p, outdir))
    viols = []
    total = 0
    with cf.ThreadPoolExecutor(max_workers=procs) as exr:
        for idx, vs, ok, out, wall in exr.map(validate_chunk, jobs):
            if not ok:
                raise ToolError("trace validation did not consume its trace (chunk %d):\n%s" % (idx, out[-3000:]))
            for (x, line, prop, guard) in vs:
                viols.append({"x": x, "line": int(line), "prop": prop, "guard": guard, "chunk": idx})
    total = sum(sum(1 for l_ in ex[x] if '"ev":"mark"' not in l_) for x in reps)
    # de-duplicate (TLC may evaluate an action more than once)
    uniq = {}
    for v in viols:
        uniq[(v["x"], v["line"], v["prop"], v["guard"])] = v
    return list(uniq.values()), total

# --------------------------------------------------------------------------------------------
# known findings

def load_findings():
    p = os.path.join(VERIF, "known_findings.json")
    if not os.path.exists(p):
        return []
    return json.load(open(p)).get("findings", [])

def match_finding(v, scenario, findings):
    """an OPEN finding matches a violation iff property and guard agree and the scenario carries
    every tag the finding requires (its specific circumstance)"""
    tags = set(scenario.get("tags", []))
    for f in findings:
        if f.get("status") != "open":
            continue
        if f["property"] != v["prop"]:
            continue
        if v["guard"] not in f.get("guards", []):
            continue
        if not set(f.get("requires_tags", [])) <= tags:
            continue
        return f
    return None

def write_evidence(prop, tier, seed, level, coverage, wall, violations, assumptions):
    os.makedirs(EVIDENCE, exist_ok=True)
    ev = {"property_id": prop, "tier": tier, "seed": seed, "level": level, "coverage": coverage,
          "assumptions": assumptions, "wall_s": round(wall, 1), "violations": violations}
    with open(os.path.join(EVIDENCE, prop + ".json"), "w") as f:
        json.dump(ev, f, indent=1)
