\* C08: 5 never-ending connections against MIN_THREADS = 4; every dispatch/wake interleaving
SPECIFICATION FairSpec
CONSTANTS
  N = 5
  MinThreads = 4
  MaxW = 9
  CanFinish = FALSE
  CanDrop = FALSE
  DevPoolCountsWoken = FALSE
INVARIANTS TypeOK NoStarve QueueCovered AtMostOneWorker WaitingCntOK BoundNotHit
PROPERTIES EveryConnServed
CHECK_DEADLOCK FALSE
