//! Independent client-side HTTP/1.x response parser (RFC 7230 §3.3.3 message-length rules).
//! Written for the harness; shares no code with tiny-http.

#[derive(Clone, Debug, Default)]
pub struct Frame {
    pub status: u16,
    pub ver: (u8, u8),
    pub headers: Vec<(String, String)>,
    pub body: Vec<u8>,
    /// status line, header syntax, framing headers all acceptable and the end of the message was
    /// determined without relying on connection close
    pub wellformed: bool,
    /// why not (first reason)
    pub why: &'static str,
    /// message length was decided by: "none" (1xx/204/304/HEAD), "cl", "chunked", "close"
    pub delim: &'static str,
    /// bytes of body (after transfer decoding) and raw bytes on the wire after the head
    pub wire_body_bytes: usize,
    pub raw_len: usize,
}

impl Frame {
    pub fn interim(&self) -> bool {
        self.status >= 100 && self.status < 200 && self.status != 101
    }
    pub fn header(&self, name: &str) -> Option<&str> {
        self.headers
            .iter()
            .find(|(n, _)| n.eq_ignore_ascii_case(name))
            .map(|(_, v)| v.as_str())
    }
    pub fn header_count(&self, name: &str) -> usize {
        self.headers.iter().filter(|(n, _)| n.eq_ignore_ascii_case(name)).count()
    }
}

pub struct Parser {
    buf: Vec<u8>,
    /// number of final (non-interim) frames produced so far
    pub finals: usize,
    /// for final frame k: was request k a HEAD?
    head_requests: Vec<bool>,
    /// "<conn>.<msg>" (the value of X-Id) -> that request was a HEAD
    pub head_by_xid: std::collections::HashMap<String, bool>,
    /// treat 101 like any other status (direct-API cases, where no protocol switch happens)
    pub ignore_upgrade: bool,
    /// after a 101 the rest of the stream is opaque
    pub upgraded: bool,
    pub opaque: Vec<u8>,
}

fn find(hay: &[u8], needle: &[u8], from: usize) -> Option<usize> {
    if hay.len() < needle.len() {
        return None;
    }
    (from..=hay.len() - needle.len()).find(|&i| &hay[i..i + needle.len()] == needle)
}

fn is_tchar(b: u8) -> bool {
    b.is_ascii_alphanumeric() || b"!#$%&'*+-.^_`|~".contains(&b)
}

enum BodyRes {
    Need,
    Done { body: Vec<u8>, used: usize },
    Bad(&'static str),
}

fn parse_chunked(b: &[u8]) -> BodyRes {
    let mut pos = 0;
    let mut body = Vec::new();
    loop {
        let le = match find(b, b"\r\n", pos) {
            Some(x) => x,
            None => return BodyRes::Need,
        };
        let line = &b[pos..le];
        let hexpart: &[u8] = match line.iter().position(|c| *c == b';') {
            Some(i) => &line[..i],
            None => line,
        };
        if hexpart.is_empty() || !hexpart.iter().all(|c| c.is_ascii_hexdigit()) || hexpart.len() > 15 {
            return BodyRes::Bad("chunk size line");
        }
        let n = usize::from_str_radix(std::str::from_utf8(hexpart).unwrap(), 16).unwrap();
        pos = le + 2;
        if n == 0 {
            // trailers until empty line
            loop {
                let te = match find(b, b"\r\n", pos) {
                    Some(x) => x,
                    None => return BodyRes::Need,
                };
                if te == pos {
                    return BodyRes::Done { body, used: te + 2 };
                }
                pos = te + 2;
            }
        }
        if b.len() < pos + n + 2 {
            return BodyRes::Need;
        }
        body.extend_from_slice(&b[pos..pos + n]);
        if &b[pos + n..pos + n + 2] != b"\r\n" {
            return BodyRes::Bad("chunk not followed by CRLF");
        }
        pos += n + 2;
    }
}

impl Parser {
    pub fn new(head_requests: Vec<bool>) -> Parser {
        Parser {
            buf: Vec::new(),
            finals: 0,
            head_requests,
            head_by_xid: std::collections::HashMap::new(),
            ignore_upgrade: false,
            upgraded: false,
            opaque: Vec::new(),
        }
    }

    pub fn feed(&mut self, data: &[u8]) -> Vec<Frame> {
        if self.upgraded {
            self.opaque.extend_from_slice(data);
            return Vec::new();
        }
        self.buf.extend_from_slice(data);
        let mut out = Vec::new();
        while let Some(f) = self.try_one(false) {
            let up = f.status == 101 && !self.ignore_upgrade;
            out.push(f);
            if up {
                self.upgraded = true;
                self.opaque = std::mem::take(&mut self.buf);
                break;
            }
        }
        out
    }

    /// at end of stream: a close-delimited message ends here; anything else left is junk
    pub fn finish(&mut self) -> (Vec<Frame>, usize) {
        let mut out = Vec::new();
        if !self.upgraded {
            while let Some(f) = self.try_one(true) {
                out.push(f);
            }
        }
        let junk = self.buf.len();
        self.buf.clear();
        (out, junk)
    }

    fn try_one(&mut self, at_eof: bool) -> Option<Frame> {
        if self.buf.is_empty() {
            return None;
        }
        let he = find(&self.buf, b"\r\n\r\n", 0)?;
        let head = self.buf[..he].to_vec();
        let mut f = Frame {
            wellformed: true,
            why: "",
            delim: "none",
            ..Default::default()
        };
        let mut bad = |f: &mut Frame, why: &'static str| {
            if f.wellformed {
                f.wellformed = false;
                f.why = why;
            }
        };
        let mut lines = head.split(|c| *c == b'\n').map(|l| {
            if l.ends_with(b"\r") {
                &l[..l.len() - 1]
            } else {
                l
            }
        });
        let sl = lines.next().unwrap_or(b"");
        // status line: HTTP/d.d SP 3DIGIT SP reason
        if sl.len() >= 12
            && &sl[..5] == b"HTTP/"
            && sl[5].is_ascii_digit()
            && sl[6] == b'.'
            && sl[7].is_ascii_digit()
            && sl[8] == b' '
            && sl[9..12].iter().all(|c| c.is_ascii_digit())
            && (sl.len() == 12 || sl[12] == b' ')
        {
            f.ver = (sl[5] - b'0', sl[7] - b'0');
            f.status = std::str::from_utf8(&sl[9..12]).unwrap().parse().unwrap();
        } else {
            bad(&mut f, "status line");
            // try to recover a status anyway
            let parts: Vec<&[u8]> = sl.split(|c| *c == b' ').collect();
            if parts.len() >= 2 {
                f.status = std::str::from_utf8(parts[1]).ok().and_then(|s| s.parse().ok()).unwrap_or(0);
            }
        }
        for l in lines {
            if l.is_empty() {
                continue;
            }
            match l.iter().position(|c| *c == b':') {
                Some(i) if i > 0 && l[..i].iter().all(|c| is_tchar(*c)) => {
                    let name = String::from_utf8_lossy(&l[..i]).to_string();
                    let val = String::from_utf8_lossy(&l[i + 1..]).trim_matches(|c| c == ' ' || c == '\t').to_string();
                    if l[i + 1..].iter().any(|c| *c == b'\r' || *c == 0) {
                        bad(&mut f, "header value");
                    }
                    f.headers.push((name, val));
                }
                _ => bad(&mut f, "header line"),
            }
        }
        let body_start = he + 4;
        let is_head = if f.interim() {
            false
        } else {
            // a response that names the request it answers (the harness's X-Id header) is judged by that request's
            // method: a request answered through an unused raw writer elicits no response at all, so the position of
            // a response in the stream does not always identify its request
            match f.header("X-Id").and_then(|x| self.head_by_xid.get(x).copied()) {
                Some(h) => h,
                None => self.head_requests.get(self.finals).copied().unwrap_or(false),
            }
        };
        let te = f.header("Transfer-Encoding").map(|s| s.to_ascii_lowercase());
        let cl = f.header("Content-Length").map(|s| s.to_string());
        if f.header_count("Content-Length") > 1 || f.header_count("Transfer-Encoding") > 1 {
            bad(&mut f, "duplicate framing header");
        }
        if te.is_some() && cl.is_some() {
            bad(&mut f, "both Content-Length and Transfer-Encoding");
        }
        let nobody = (f.status >= 100 && f.status < 200) || f.status == 204 || f.status == 304 || is_head;
        let avail = &self.buf[body_start..];
        let used;
        if nobody {
            f.delim = "none";
            used = 0;
        } else if let Some(te) = te {
            if te != "chunked" {
                bad(&mut f, "unknown transfer coding");
            }
            f.delim = "chunked";
            match parse_chunked(avail) {
                BodyRes::Need => {
                    if at_eof {
                        bad(&mut f, "truncated chunked body");
                        f.wire_body_bytes = avail.len();
                        used = avail.len();
                    } else {
                        return None;
                    }
                }
                BodyRes::Done { body, used: u } => {
                    f.body = body;
                    f.wire_body_bytes = u;
                    used = u;
                }
                BodyRes::Bad(w) => {
                    bad(&mut f, w);
                    f.wire_body_bytes = avail.len();
                    used = avail.len();
                }
            }
        } else if let Some(cl) = cl {
            f.delim = "cl";
            match cl.parse::<usize>() {
                Ok(n) if cl.bytes().all(|c| c.is_ascii_digit()) => {
                    if avail.len() < n {
                        if at_eof {
                            bad(&mut f, "truncated body");
                            f.body = avail.to_vec();
                            f.wire_body_bytes = avail.len();
                            used = avail.len();
                        } else {
                            return None;
                        }
                    } else {
                        f.body = avail[..n].to_vec();
                        f.wire_body_bytes = n;
                        used = n;
                    }
                }
                _ => {
                    bad(&mut f, "Content-Length value");
                    used = avail.len();
                }
            }
        } else {
            // close-delimited: only complete at EOF, and never "self-delimiting"
            if !at_eof {
                return None;
            }
            f.delim = "close";
            bad(&mut f, "message delimited by connection close");
            f.body = avail.to_vec();
            f.wire_body_bytes = avail.len();
            used = avail.len();
        }
        f.raw_len = body_start + used;
        self.buf.drain(..body_start + used);
        if !f.interim() {
            self.finals += 1;
        }
        Some(f)
    }
}

#[cfg(test)]
mod tests {
    use super::*;
    #[test]
    fn basic() {
        let mut p = Parser::new(vec![false, true, false]);
        let fs = p.feed(b"HTTP/1.1 200 OK\r\nContent-Length: 3\r\n\r\nabcHTTP/1.1 200 OK\r\nContent-Length: 3\r\n\r\nHTTP/1.1 200 OK\r\nTransfer-Encoding: chunked\r\n\r\n3\r\nabc\r\n0\r\n\r\n");
        assert_eq!(fs.len(), 3);
        assert!(fs.iter().all(|f| f.wellformed));
        assert_eq!(fs[0].body, b"abc");
        assert_eq!(fs[1].body, b"");
        assert_eq!(fs[2].body, b"abc");
    }
}
