-------------------------- MODULE MC_WriterChain --------------------------
EXTENDS WriterChain
AllPlans == {"small", "drop", "big", "chunked", "unused", "raw2f", "raw2n", "raw1l", "rawf1"}
QuickPlans == {"small", "big", "unused", "raw2f", "raw2n", "drop", "rawf1"}
=============================================================================
