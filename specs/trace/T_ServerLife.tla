---------------------------- MODULE T_ServerLife ----------------------------
(***************************************************************************)
(* Mechanism-level trace specification for the listening socket's life:    *)
(* the marker events of the accept loop and of Server::drop                *)
(* (`srv.check`, `srv.accept`, `srv.exit`, `srv.flag` in src/lib.rs) and   *)
(* the connection attempts seen by the in-memory listener (`net.connect`,  *)
(* emitted by the runtime at the instant the connection enters the accept  *)
(* queue or is refused) must be a behaviour of mech/ServerLife.            *)
(* Fidelity measurement only (DESIGN.md 2.1).                              *)
(*                                                                         *)
(* Events (tools/mechtrace.py):  Reset | connect(ok) | wakeconn(ok) |      *)
(* check | accept | exit | flag | dropped.  Clients are numbered in the    *)
(* order of their connection attempts.  Silent: the listening socket is    *)
(* closed some time after the accept thread has left its loop; the         *)
(* dispatch of an accepted connection is folded into `accept`.             *)
(***************************************************************************)
EXTENDS ServerLife, Json, IOUtils, TLC

Rec == ndJsonDeserialize(IOEnv.TRACE)

VARIABLES l, nc
tvars == <<vars, l, nc>>

Reach(n) == TLCSet(42, IF TLCGet(42) < n THEN n ELSE TLCGet(42))
E == Rec[l]
Consume == l <= Len(Rec) /\ l' = l + 1

Fresh ==
    /\ flag' = FALSE /\ listener' = "open" /\ backlog' = <<>>
    /\ conn' = [c \in Clients |-> "idle"]
    /\ acc' = "check" /\ iter' = 0 /\ drp' = "alive" /\ path' = Unix /\ late' = 0
    /\ nc' = 0

TInit == /\ TLCSet(42, 1) /\ l = 1 /\ nc = 0 /\ Init

TReset == Consume /\ E.ev = "Reset" /\ Fresh

\* a client's connection attempt: queued iff the listening socket exists
TConnect ==
    /\ Consume /\ E.ev = "connect" /\ nc + 1 \in Clients
    /\ nc' = nc + 1
    /\ Connect(nc + 1)
    /\ conn'[nc + 1] = IF E.ok THEN "queued" ELSE "refused"

TCheck == Consume /\ E.ev = "check" /\ ~flag /\ AccCheck /\ UNCHANGED nc

\* accept() returns the head of the queue; the connection is handed to the pool (folded: back to the loop head)
TAccept ==
    /\ Consume /\ E.ev = "accept" /\ UNCHANGED nc
    /\ AccAcceptTo("check")

\* the loop condition was false: the thread leaves the loop
TExit ==
    /\ Consume /\ E.ev = "exit" /\ flag /\ UNCHANGED nc
    /\ AccCheckTo("exited")

TFlag == Consume /\ E.ev = "flag" /\ ~FlagAfterWake /\ Drop1 /\ UNCHANGED nc

\* drop's connection to itself: it reaches the accept queue iff the listening socket still exists
TWake ==
    /\ Consume /\ E.ev = "wakeconn" /\ UNCHANGED nc
    /\ Drop2
    /\ E.ok <=> (listener = "open")

TDropped == Consume /\ E.ev = "dropped" /\ drp = "done" /\ UNCHANGED <<vars, nc>>

\* silent, at most once per life: the accept thread's closure has ended
TClose == /\ l <= Len(Rec) /\ l' = l /\ UNCHANGED nc /\ AccCloseListener

TNext == (TReset \/ TConnect \/ TCheck \/ TAccept \/ TExit \/ TFlag \/ TWake \/ TDropped \/ TClose) /\ Reach(l')
TSpec == TInit /\ [][TNext]_tvars

Accepted == PrintT(<<"MECH", Len(Rec), TLCGet(42)>>)
=============================================================================
