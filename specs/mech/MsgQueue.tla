------------------------------ MODULE MsgQueue ------------------------------
(***************************************************************************)
(* Mechanism specification of tiny-http's request queue                    *)
(* (src/util/messages_queue.rs, used by Server::recv / recv_timeout /      *)
(* try_recv / unblock and by every connection thread's push).              *)
(*                                                                         *)
(* One action per critical section of the code:                            *)
(*   Push      = MessagesQueue::push   (lock; push_back; notify_one)       *)
(*   Unblock   = MessagesQueue::unblock(lock; push_back(Unblock); notify)  *)
(*   Call(r)   = the first lock/check of pop, try_pop or pop_timeout       *)
(*   Fire(r)   = the timer of a wait_timeout expires (kernel side)         *)
(*   Wake(r)   = a notified / timed-out waiter re-acquires the mutex and   *)
(*               runs until it returns or waits again                      *)
(*   Spurious(r) = a condvar wait returns although nobody notified         *)
(*   Tick      = time passes (only when no thread can run: computation is  *)
(*               instantaneous compared with a tick)                       *)
(*                                                                         *)
(* Time is counted in ticks; Eps is the 1 ms "give up" threshold of        *)
(* pop_timeout expressed in ticks (vrt: 1 tick = 0.5 ms, Eps = 2).         *)
(*                                                                         *)
(* Named deviation (DESIGN.md 6.1, F2): DevPopTimeoutNoRecheck = TRUE      *)
(* models the code before the fix (a waiter that consumed a notification   *)
(* gives up in the last Eps of its timeout WITHOUT looking at the queue).  *)
(***************************************************************************)
EXTENDS Integers, Sequences, FiniteSets, TLC

CONSTANTS
    Recv,           \* set of receiver threads
    Progs,          \* set of receiver programs; a program is a sequence of calls, each in
                    \* {"pop","try","timed"}; every assignment Recv -> Progs is explored
    NItems,         \* number of requests pushed (by any connection thread)
    NUnblock,       \* number of unblock() calls
    T,              \* timeout of every timed receive, in ticks
    Eps,            \* give-up threshold in ticks
    MaxNow,         \* clock bound (constants are bounded by construction)
    AllowSpurious,  \* BOOLEAN
    DevPopTimeoutNoRecheck   \* BOOLEAN: F2 as coded before the fix

ASSUME /\ NItems \in Nat /\ NUnblock \in Nat /\ T \in Nat \ {0} /\ Eps \in Nat
       /\ \A p \in Progs : \A i \in 1..Len(p) : p[i] \in {"pop", "try", "timed"}

U == 0        \* the Unblock token (items are 1..NItems)
NONE == -1    \* a receive that returns empty-handed (recv_timeout / try_recv: Ok(None))
ERR == -2     \* recv() returning its "thread unblocked" error

VARIABLES
    prog,     \* prog[r]: the program of receiver r (chosen initially, then constant)
    q,        \* the deque: sequence of item numbers and U tokens
    pushed,   \* items pushed so far (items are numbered 1..NItems in push order)
    unb,      \* unblock calls so far
    pc,       \* pc[r] : index of r's current call in Prog[r]
    rs,       \* rs[r] \in {"idle","wait","woken","done"}: state within the current call
    tmo,      \* tmo[r]: the current wake-up is a timeout (wait_timeout's result)
    wstart,   \* wstart[r]: instant at which the current wait started
    dur,      \* dur[r]: pop_timeout's remaining `duration`
    cstart,   \* cstart[r]: instant at which the current call started
    ret,      \* ret[r]: sequence of results of r's finished calls: item number, NONE or ERR,
              \*         each with the elapsed ticks: [v |-> ..., el |-> ..., k |-> kind]
    now

vars == <<prog, q, pushed, unb, pc, rs, tmo, wstart, dur, cstart, ret, now>>

Kind(r) == prog[r][pc[r]]
InCall(r) == pc[r] <= Len(prog[r])
Waiters == {r \in Recv : rs[r] = "wait"}

Init ==
    /\ prog \in [Recv -> Progs]
    /\ q = <<>> /\ pushed = 0 /\ unb = 0
    /\ pc = [r \in Recv |-> 1]
    /\ rs = [r \in Recv |-> "idle"]
    /\ tmo = [r \in Recv |-> FALSE]
    /\ wstart = [r \in Recv |-> 0]
    /\ dur = [r \in Recv |-> 0]
    /\ cstart = [r \in Recv |-> 0]
    /\ ret = [r \in Recv |-> <<>>]
    /\ now = 0

Push ==
    /\ pushed < NItems
    /\ pushed' = pushed + 1
    /\ q' = Append(q, pushed + 1)
    /\ \/ /\ Waiters = {} /\ rs' = rs /\ tmo' = tmo
       \/ \E w \in Waiters : rs' = [rs EXCEPT ![w] = "woken"] /\ tmo' = [tmo EXCEPT ![w] = FALSE]
    /\ UNCHANGED <<prog, unb, pc, wstart, dur, cstart, ret, now>>

Unblock ==
    /\ unb < NUnblock
    /\ unb' = unb + 1
    /\ q' = Append(q, U)
    /\ \/ /\ Waiters = {} /\ rs' = rs /\ tmo' = tmo
       \/ \E w \in Waiters : rs' = [rs EXCEPT ![w] = "woken"] /\ tmo' = [tmo EXCEPT ![w] = FALSE]
    /\ UNCHANGED <<prog, pushed, pc, wstart, dur, cstart, ret, now>>

\* result of popping the front element for a call of kind k
ResOf(k, x) == IF x = U THEN (IF k = "pop" THEN ERR ELSE NONE) ELSE x

Finish(r, v) ==
    /\ ret' = [ret EXCEPT ![r] = Append(@, [v |-> v, el |-> now - cstart[r], k |-> Kind(r)])]
    /\ pc' = [pc EXCEPT ![r] = @ + 1]
    /\ rs' = [rs EXCEPT ![r] = "idle"]

\* first critical section of a call
Call(r) ==
    /\ InCall(r) /\ rs[r] = "idle"
    /\ cstart' = [cstart EXCEPT ![r] = now]
    /\ IF q # <<>>
       THEN /\ q' = Tail(q)
            /\ ret' = [ret EXCEPT ![r] = Append(@, [v |-> ResOf(Kind(r), Head(q)), el |-> 0, k |-> Kind(r)])]
            /\ pc' = [pc EXCEPT ![r] = @ + 1]
            /\ UNCHANGED <<rs, wstart, dur, tmo>>
       ELSE IF Kind(r) = "try"
            THEN /\ ret' = [ret EXCEPT ![r] = Append(@, [v |-> NONE, el |-> 0, k |-> "try"])]
                 /\ pc' = [pc EXCEPT ![r] = @ + 1]
                 /\ UNCHANGED <<q, rs, wstart, dur, tmo>>
            ELSE /\ rs' = [rs EXCEPT ![r] = "wait"]
                 /\ wstart' = [wstart EXCEPT ![r] = now]
                 /\ dur' = [dur EXCEPT ![r] = T]
                 /\ tmo' = [tmo EXCEPT ![r] = FALSE]
                 /\ UNCHANGED <<q, ret, pc>>
    /\ UNCHANGED <<prog, pushed, unb, now>>

\* wait_timeout(queue, timeout): the code always waits for the FULL timeout again
Fire(r) ==
    /\ rs[r] = "wait" /\ Kind(r) = "timed"
    /\ now >= wstart[r] + T
    /\ rs' = [rs EXCEPT ![r] = "woken"]
    /\ tmo' = [tmo EXCEPT ![r] = TRUE]
    /\ UNCHANGED <<prog, q, pushed, unb, pc, wstart, dur, cstart, ret, now>>

Spurious(r) ==
    /\ AllowSpurious
    /\ rs[r] = "wait"
    /\ rs' = [rs EXCEPT ![r] = "woken"]
    /\ tmo' = [tmo EXCEPT ![r] = FALSE]
    /\ UNCHANGED <<prog, q, pushed, unb, pc, wstart, dur, cstart, ret, now>>

Monus(a, b) == IF a > b THEN a - b ELSE 0

\* the waiter re-acquires the mutex
Wake(r) ==
    /\ rs[r] = "woken"
    /\ UNCHANGED <<prog, pushed, unb, now, cstart>>
    /\ IF Kind(r) = "pop"
       THEN \* pop: loop { pop_front or wait }
            IF q # <<>>
            THEN /\ q' = Tail(q) /\ Finish(r, ResOf("pop", Head(q)))
                 /\ UNCHANGED <<wstart, dur, tmo>>
            ELSE /\ rs' = [rs EXCEPT ![r] = "wait"]
                 /\ UNCHANGED <<q, ret, pc, wstart, dur, tmo>>
       ELSE \* pop_timeout, messages_queue.rs:81-93
            LET d == Monus(dur[r], now - wstart[r])
                giveup == tmo[r] \/ d < Eps
            IN  IF giveup
                THEN IF (~DevPopTimeoutNoRecheck) /\ q # <<>>
                     THEN \* as intended: look at the queue once more before giving up
                          /\ q' = Tail(q) /\ Finish(r, ResOf("timed", Head(q)))
                          /\ UNCHANGED <<wstart, dur, tmo>>
                     ELSE /\ Finish(r, NONE)
                          /\ UNCHANGED <<q, wstart, dur, tmo>>
                ELSE IF q # <<>>
                     THEN /\ q' = Tail(q) /\ Finish(r, ResOf("timed", Head(q)))
                          /\ UNCHANGED <<wstart, dur, tmo>>
                     ELSE /\ rs' = [rs EXCEPT ![r] = "wait"]
                          /\ wstart' = [wstart EXCEPT ![r] = now]
                          /\ dur' = [dur EXCEPT ![r] = d]
                          /\ UNCHANGED <<q, ret, pc, tmo>>

\* time passes only when no library-internal step is enabled
Tick ==
    /\ now < MaxNow
    /\ ~ \E r \in Recv : rs[r] = "woken"
    /\ ~ \E r \in Recv : rs[r] = "wait" /\ Kind(r) = "timed" /\ now >= wstart[r] + T
    /\ now' = now + 1
    /\ UNCHANGED <<prog, q, pushed, unb, pc, rs, tmo, wstart, dur, cstart, ret>>

Next ==
    \/ Push \/ Unblock \/ Tick
    \/ \E r \in Recv : Call(r) \/ Fire(r) \/ Wake(r) \/ Spurious(r)

Fairness ==
    /\ \A r \in Recv : WF_vars(Wake(r)) /\ WF_vars(Fire(r)) /\ WF_vars(Call(r))
    /\ WF_vars(Tick)

Spec == Init /\ [][Next]_vars
FairSpec == Spec /\ Fairness

-----------------------------------------------------------------------------
(* Judge-level properties (C07, C17), stated over the mechanism's variables.   *)

AllRets == UNION {{<<r, i>> : i \in 1..Len(ret[r])} : r \in Recv}
ItemRets == {p \in AllRets : ret[p[1]][p[2]].v \notin {NONE, ERR}}
InQueue == {q[i] : i \in 1..Len(q)} \ {U}

TypeOK ==
    /\ pushed \in 0..NItems /\ unb \in 0..NUnblock /\ now \in 0..MaxNow
    /\ \A r \in Recv : rs[r] \in {"idle", "wait", "woken"}

\* C07: exactly once -- no item returned twice, none invented
NoDup == \A p1, p2 \in ItemRets : ret[p1[1]][p1[2]].v = ret[p2[1]][p2[2]].v => p1 = p2
\* C07 / C17: nothing lost or discarded: every pushed item is queued or was returned
NoLoss == (1..pushed) = InQueue \cup {ret[p[1]][p[2]].v : p \in ItemRets}
\* C07: one receiver sees increasing item numbers (wire order), whoever else receives
Fifo == \A r \in Recv : \A i, j \in 1..Len(ret[r]) :
           (i < j /\ ret[r][i].v \notin {NONE, ERR} /\ ret[r][j].v \notin {NONE, ERR})
               => ret[r][i].v < ret[r][j].v
\* C07: no lost wake-up: something queued and a receiver blocked => somebody is on the way
NoLostWakeup == (q # <<>> /\ Waiters # {}) => (\E r \in Recv : rs[r] = "woken")

\* C17: never more receivers released than unblock calls
EmptyRets == {p \in AllRets : ret[p[1]][p[2]].v \in {NONE, ERR}}
DefiniteReleases ==
    {p \in EmptyRets : \/ ret[p[1]][p[2]].k = "pop"
                       \/ ret[p[1]][p[2]].k = "timed" /\ ret[p[1]][p[2]].el + Eps < T}
ReleasesBounded == Cardinality(DefiniteReleases) <= unb
\* C17: tokens are conserved: every unblock is queued or released exactly one call
TokensInQueue == Cardinality({i \in 1..Len(q) : q[i] = U})
TokenConservation == Cardinality({p \in EmptyRets : ret[p[1]][p[2]].k = "pop"}) + TokensInQueue <= unb
\* C17: a timed receive that returns empty-handed does so within [T - Eps, 2T] unless released early
\* by an unblock (counted above); try never waits
TimedBounds == \A p \in EmptyRets :
    LET x == ret[p[1]][p[2]] IN
      /\ x.k = "try" => x.el = 0
      /\ x.k = "timed" => x.el <= 2 * T
      /\ (x.k = "timed" /\ unb = 0) => x.el + Eps >= T
\* a timed receiver is never inside a call for longer than 2T
TimedNeverLate == \A r \in Recv :
    (InCall(r) /\ Kind(r) = "timed" /\ rs[r] # "idle") => now - cstart[r] <= 2 * T

\* liveness (C07): it never happens that, from some point on, a request stays queued while a
\* receiver stays blocked in recv()
PopStuck == q # <<>> /\ \E r \in Recv : rs[r] = "wait" /\ Kind(r) = "pop"
NeverStuckForever == ~<>[]PopStuck

=============================================================================
