#!/bin/sh
# usage: tlc.sh <name-for-metadir> <workers> <cfg> <module.tla> [extra tlc args...]   (run from the module's directory)
# All specification directories are on the module search path.
name="$1"; workers="$2"; cfg="$3"; mod="$4"; shift 4
S=/verif/specs
LIB="$S/mech:$S/judge:$S/fn:$S/trace:$S/mc"
mkdir -p /verif/work/tlc
exec java -XX:+UseParallelGC ${TLC_JAVA_OPTS:--Xmx6g -Xss64m} -DTLA-Library="$LIB" \
  -cp /opt/veriftools/tla/tla2tools.jar:/opt/veriftools/tla/CommunityModules-deps.jar tlc2.TLC \
  -workers "$workers" -metadir "/verif/work/tlc/$name" -cleanup -noGenerateSpecTE -config "$cfg" "$@" "$mod"
