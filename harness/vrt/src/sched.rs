//! schedulers: every decision of the runtime is one call of `choose`

#[derive(Clone, Copy, Debug, PartialEq, Eq)]
pub enum OptKind {
    /// give the baton to a runnable thread
    Run,
    /// let the timer of a blocked thread expire (its deadline has been reached)
    Fire,
    /// which condvar waiter a `notify_one` releases
    Waiter,
}

#[derive(Clone, Debug)]
pub struct Opt {
    pub kind: OptKind,
    pub tid: usize,
    pub lib: bool,
    /// the thread that currently holds the baton (always option 0 when present)
    pub current: bool,
}

pub trait Scheduler: Send {
    /// called only when there are at least two options
    fn choose(&mut self, menu: &[Opt]) -> usize;
    /// a restrictive scheduler is consulted at every step (even with a single option) and may
    /// refuse to schedule anything: the execution is then handed back to the controller
    fn restrictive(&self) -> bool {
        false
    }
    fn choose_opt(&mut self, menu: &[Opt]) -> Option<usize> {
        Some(self.choose(menu))
    }
}

/// what the controller currently allows to happen (directed execution: one specification action
/// at a time, see harness/common/src/walk.rs)
#[derive(Default, Clone, Debug)]
pub struct Allow {
    /// library threads may run (and their timers may expire)
    pub lib: bool,
    /// environment threads that may run
    pub env: std::collections::HashSet<usize>,
    /// the waiter a notify_one must pick (None: there must be no choice to make)
    pub waiter: Option<usize>,
    /// a notify_one found several waiters and none of them was the designated one
    pub waiter_mismatch: bool,
    /// when set, only these library threads may run (and `lib` must be true as well)
    pub libset: Option<std::collections::HashSet<usize>>,
    /// the designated waiter also decides notify_one on library-internal condvars
    pub lib_waiter: bool,
}

pub struct AllowSched {
    pub allow: std::sync::Arc<std::sync::Mutex<Allow>>,
}

impl Scheduler for AllowSched {
    fn choose(&mut self, menu: &[Opt]) -> usize {
        self.choose_opt(menu).unwrap_or(0)
    }
    fn restrictive(&self) -> bool {
        true
    }
    fn choose_opt(&mut self, menu: &[Opt]) -> Option<usize> {
        let mut a = self.allow.lock().unwrap();
        if menu[0].kind == OptKind::Waiter {
            if menu.iter().all(|o| o.lib) && !a.lib_waiter {
                // library-internal condvar (the worker pool): any waiter will do
                return Some(0);
            }
            if let Some(w) = a.waiter {
                if let Some(i) = menu.iter().position(|o| o.tid == w) {
                    return Some(i);
                }
            }
            a.waiter_mismatch = true;
            return Some(0);
        }
        for (i, o) in menu.iter().enumerate() {
            let ok = if o.lib {
                a.lib && a.libset.as_ref().map_or(true, |s| s.contains(&o.tid))
            } else {
                a.env.contains(&o.tid)
            };
            // timers of environment threads are fired by explicit directives only
            if ok && (o.kind == OptKind::Run || o.lib) {
                return Some(i);
            }
        }
        None
    }
}

pub struct XorShift(pub u64);

impl XorShift {
    pub fn new(seed: u64) -> XorShift {
        XorShift(seed.wrapping_mul(0x9E3779B97F4A7C15) ^ 0xD1B54A32D192ED03 | 1)
    }
    pub fn next(&mut self) -> u64 {
        let mut x = self.0;
        x ^= x << 13;
        x ^= x >> 7;
        x ^= x << 17;
        self.0 = x;
        x.wrapping_mul(0x2545F4914F6CDD1D)
    }
    pub fn below(&mut self, n: usize) -> usize {
        (self.next() % (n as u64)) as usize
    }
}

/// uniform random walk
pub struct RandomSched {
    rng: XorShift,
}

impl RandomSched {
    pub fn new(seed: u64) -> RandomSched {
        RandomSched {
            rng: XorShift::new(seed),
        }
    }
}

impl Scheduler for RandomSched {
    fn choose(&mut self, menu: &[Opt]) -> usize {
        self.rng.below(menu.len())
    }
}

/// PCT-flavoured: random thread priorities, `d` priority change points; timer firings and waiter
/// picks are uniform.
pub struct PctSched {
    rng: XorShift,
    prio: Vec<u64>,
    change_at: Vec<u64>,
    step: u64,
}

impl PctSched {
    pub fn new(seed: u64, depth: usize, expected_len: u64) -> PctSched {
        let mut rng = XorShift::new(seed);
        let mut change_at: Vec<u64> = (0..depth).map(|_| rng.next() % expected_len.max(1)).collect();
        change_at.sort();
        PctSched {
            rng,
            prio: Vec::new(),
            change_at,
            step: 0,
        }
    }
    fn prio_of(&mut self, tid: usize) -> u64 {
        while self.prio.len() <= tid {
            let p = 1000 + self.rng.next() % 1_000_000;
            self.prio.push(p);
        }
        self.prio[tid]
    }
}

impl Scheduler for PctSched {
    fn choose(&mut self, menu: &[Opt]) -> usize {
        self.step += 1;
        if menu[0].kind == OptKind::Waiter {
            return self.rng.below(menu.len());
        }
        // fire timers with probability 1/2 when available
        let fires: Vec<usize> = (0..menu.len()).filter(|i| menu[*i].kind == OptKind::Fire).collect();
        let runs: Vec<usize> = (0..menu.len()).filter(|i| menu[*i].kind == OptKind::Run).collect();
        if !fires.is_empty() && (runs.is_empty() || self.rng.below(2) == 0) {
            return fires[self.rng.below(fires.len())];
        }
        let mut best = runs[0];
        let mut bestp = 0;
        for i in runs {
            let p = self.prio_of(menu[i].tid);
            if p > bestp {
                bestp = p;
                best = i;
            }
        }
        if self.change_at.first().map_or(false, |c| *c <= self.step) {
            self.change_at.remove(0);
            let t = menu[best].tid;
            let low = self.change_at.len() as u64 + 1;
            self.prio[t] = low;
        }
        best
    }
}

/// follow a recorded list of choices, then always take option 0
pub struct ReplaySched {
    pub choices: Vec<u32>,
    pub pos: usize,
    pub mismatches: usize,
}

impl ReplaySched {
    pub fn new(choices: Vec<u32>) -> ReplaySched {
        ReplaySched {
            choices,
            pos: 0,
            mismatches: 0,
        }
    }
}

impl Scheduler for ReplaySched {
    fn choose(&mut self, menu: &[Opt]) -> usize {
        let c = if self.pos < self.choices.len() {
            self.choices[self.pos] as usize
        } else {
            0
        };
        self.pos += 1;
        if c >= menu.len() {
            self.mismatches += 1;
            0
        } else {
            c
        }
    }
}

/// delay-bounded systematic exploration: option 0 (keep the current thread running / lowest thread)
/// everywhere except at the listed choice points. The controller enumerates the deviation sets.
pub struct DelaySched {
    pub deviations: Vec<(usize, usize)>,
    pub point: usize,
    /// number of options seen at every choice point (shared with the controller)
    pub seen: std::sync::Arc<std::sync::Mutex<Vec<u32>>>,
}

impl DelaySched {
    pub fn new(
        deviations: Vec<(usize, usize)>,
        seen: std::sync::Arc<std::sync::Mutex<Vec<u32>>>,
    ) -> DelaySched {
        DelaySched {
            deviations,
            point: 0,
            seen,
        }
    }
}

impl Scheduler for DelaySched {
    fn choose(&mut self, menu: &[Opt]) -> usize {
        let p = self.point;
        self.point += 1;
        self.seen.lock().unwrap().push(menu.len() as u32);
        for (dp, o) in self.deviations.iter() {
            if *dp == p {
                return if *o < menu.len() { *o } else { 0 };
            }
        }
        0
    }
}

/// systematic single-demotion exploration: threads run in a fixed priority order (ascending or
/// descending thread id, timers that are due after the threads); at choice point `at` the thread that
/// would run next is demoted below everything else -- other threads and due timers -- for the rest of
/// the execution (the priority change of PCT, placed at every point in turn by the controller).
pub struct DemoteSched {
    pub at: usize,
    pub asc: bool,
    pub point: usize,
    pub demoted: Vec<usize>,
    pub seen: std::sync::Arc<std::sync::Mutex<Vec<u32>>>,
}

impl DemoteSched {
    pub fn new(at: usize, asc: bool, seen: std::sync::Arc<std::sync::Mutex<Vec<u32>>>) -> DemoteSched {
        DemoteSched {
            at,
            asc,
            point: 0,
            demoted: Vec::new(),
            seen,
        }
    }

    fn pick(&self, menu: &[Opt]) -> usize {
        let mut best = 0usize;
        let mut bestk = (u8::MAX, usize::MAX);
        for (i, o) in menu.iter().enumerate() {
            let class = match (o.kind, self.demoted.contains(&o.tid)) {
                (OptKind::Run, false) => 0u8,
                (OptKind::Fire, _) => 1,
                (OptKind::Run, true) => 2,
                _ => 3,
            };
            let ord = if self.asc { o.tid } else { usize::MAX - 1 - o.tid };
            if (class, ord) < bestk {
                bestk = (class, ord);
                best = i;
            }
        }
        best
    }
}

impl Scheduler for DemoteSched {
    fn choose(&mut self, menu: &[Opt]) -> usize {
        let p = self.point;
        self.point += 1;
        self.seen.lock().unwrap().push(menu.len() as u32);
        if menu[0].kind == OptKind::Waiter {
            return if self.asc { 0 } else { menu.len() - 1 };
        }
        let mut c = self.pick(menu);
        if p == self.at && menu[c].kind == OptKind::Run {
            self.demoted.push(menu[c].tid);
            c = self.pick(menu);
        }
        c
    }
}
