--------------------------- MODULE MC_MsgQueue ---------------------------
EXTENDS MsgQueue
\* TLC-only definitions for the MsgQueue configurations
ProgsQuick == {<<"pop">>, <<"timed">>, <<"try", "pop">>}
ProgsMid == {<<"pop">>, <<"timed">>, <<"try", "pop">>, <<"timed", "try">>}
ProgsThorough == {<<"pop">>, <<"timed">>, <<"try">>, <<"try", "pop">>, <<"timed", "try">>,
                  <<"timed", "timed">>, <<"pop", "pop">>}
ProgsF2 == {<<"pop">>, <<"timed">>}
=============================================================================
