#!/usr/bin/env python3
import json,sys,glob,collections
p=sys.argv[1]
skip=set(sys.argv[2:])
c=collections.Counter(); ex={}
for f in glob.glob('/verif/work/%s/replay/*.json'%p):
    r=json.load(open(f))
    tags=[t for t in r['scenario'].get('tags',[]) if not any(t.startswith(s) for s in skip)]
    k=(tuple(sorted(set(v['guard'] for v in r['violations']))), tuple(tags))
    c[k]+=1; ex[k]=f
for k,n in sorted(c.items(), key=lambda x: str(x)):
    print(n, k[0], k[1], ex[k].split('/')[-1])
