------------------------------ MODULE TaskPool ------------------------------
(***************************************************************************)
(* Mechanism specification of tiny-http's worker pool                      *)
(* (src/util/task_pool.rs) as driven by the accept loop (src/lib.rs).      *)
(* A "task" is one accepted connection: the closure that iterates over the *)
(* connection's requests until the connection ends.                        *)
(*                                                                         *)
(* One action per critical section:                                        *)
(*   Dispatch   = TaskPool::spawn under the `todo` lock: either start a    *)
(*                new thread with the task, or enqueue it and notify_one   *)
(*   Start(w)   = a new thread registers itself (active_tasks += 1) and    *)
(*                runs its initial task, if any                            *)
(*   Fetch(w)   = a worker takes the lock: pops a task or registers as     *)
(*                waiting (waiting_tasks += 1) and waits, timed iff        *)
(*                active_tasks > MIN_THREADS at that moment                *)
(*   Timeout(w) = the 5 s wait_timeout expires                             *)
(*   Wake(w)    = a notified or timed-out worker re-acquires the lock:     *)
(*                exits iff it timed out and `todo` is empty; otherwise    *)
(*                un-registers (waiting_tasks -= 1), pops or waits again   *)
(*   Exit(w)    = the exiting thread drops its active registration         *)
(*   Finish(w)  = the connection served by w ends (enabled iff CanFinish)  *)
(*   PoolDrop   = Drop for TaskPool (active_tasks := huge; notify_all)     *)
(*                                                                         *)
(* Named deviation (DESIGN.md 6.1, F3): DevPoolCountsWoken = TRUE is the   *)
(* code before the fix: spawn() treats `waiting_tasks > 0` as "a worker is *)
(* free", although a worker stays counted between being notified and       *)
(* re-acquiring the lock. As intended (FALSE): a thread is started         *)
(* whenever waiting_tasks <= len(todo).                                    *)
(***************************************************************************)
EXTENDS Naturals, Sequences, FiniteSets, TLC

CONSTANTS
    N,            \* number of connections that will be accepted
    MinThreads,   \* MIN_THREADS (4 in the code)
    MaxW,         \* bound on the number of threads ever created
    CanFinish,    \* BOOLEAN: connections may end (C20) or never end (C08: isolation)
    CanDrop,      \* BOOLEAN: the pool may be dropped
    DevPoolCountsWoken

Workers == 1..MaxW
BIG == 999

VARIABLES
    todo,        \* sequence of queued tasks (connection numbers)
    ws,          \* ws[w] \in {"none","init","fetch","waitU","waitT","woken","run","exiting","exited"}
    task,        \* task[w]: the connection w is running or was created with (0 = none)
    tmo,         \* tmo[w]: the wake-up in progress is a timeout
    waitingCnt,  \* waiting_tasks
    activeCnt,   \* active_tasks
    next,        \* connections dispatched so far
    created,     \* threads created so far
    ran,         \* ran[k]: how many workers ever started serving connection k
    dropped

vars == <<todo, ws, task, tmo, waitingCnt, activeCnt, next, created, ran, dropped>>

Init ==
    /\ todo = <<>>
    /\ ws = [w \in Workers |-> IF w <= MinThreads THEN "init" ELSE "none"]
    /\ task = [w \in Workers |-> 0]
    /\ tmo = [w \in Workers |-> FALSE]
    /\ waitingCnt = 0 /\ activeCnt = 0
    /\ next = 0 /\ created = MinThreads
    /\ ran = [k \in 1..N |-> 0]
    /\ dropped = FALSE

CvWaiters == {w \in Workers : ws[w] \in {"waitU", "waitT"}}

SpawnThread == IF DevPoolCountsWoken THEN waitingCnt = 0 ELSE waitingCnt <= Len(todo)

Dispatch ==
    /\ ~dropped /\ next < N
    /\ next' = next + 1
    /\ IF SpawnThread
       THEN /\ created < MaxW
            /\ created' = created + 1
            /\ ws' = [ws EXCEPT ![created + 1] = "init"]
            /\ task' = [task EXCEPT ![created + 1] = next + 1]
            /\ UNCHANGED <<todo, tmo>>
       ELSE /\ todo' = Append(todo, next + 1)
            /\ \/ /\ CvWaiters = {} /\ UNCHANGED <<ws, tmo>>
               \/ \E w \in CvWaiters : /\ ws' = [ws EXCEPT ![w] = "woken"]
                                       /\ tmo' = [tmo EXCEPT ![w] = FALSE]
            /\ UNCHANGED <<created, task>>
    /\ UNCHANGED <<waitingCnt, activeCnt, ran, dropped>>

Start(w) ==
    /\ ws[w] = "init"
    /\ activeCnt' = activeCnt + 1
    /\ IF task[w] # 0
       THEN /\ ws' = [ws EXCEPT ![w] = "run"]
            /\ ran' = [ran EXCEPT ![task[w]] = @ + 1]
       ELSE /\ ws' = [ws EXCEPT ![w] = "fetch"] /\ UNCHANGED ran
    /\ UNCHANGED <<todo, task, tmo, waitingCnt, next, created, dropped>>

\* pop a task or go to sleep; the caller has the lock. `cnt` is waiting_tasks before this step.
PopOrWait(w, cnt) ==
    IF todo # <<>>
    THEN /\ todo' = Tail(todo)
         /\ task' = [task EXCEPT ![w] = Head(todo)]
         /\ ws' = [ws EXCEPT ![w] = "run"]
         /\ ran' = [ran EXCEPT ![Head(todo)] = @ + 1]
         /\ waitingCnt' = cnt
    ELSE /\ waitingCnt' = cnt + 1
         /\ ws' = [ws EXCEPT ![w] = IF activeCnt <= MinThreads THEN "waitU" ELSE "waitT"]
         /\ UNCHANGED <<todo, task, ran>>

Fetch(w) ==
    /\ ws[w] = "fetch"
    /\ PopOrWait(w, waitingCnt)
    /\ UNCHANGED <<tmo, activeCnt, next, created, dropped>>

Timeout(w) ==
    /\ ws[w] = "waitT"
    /\ ws' = [ws EXCEPT ![w] = "woken"]
    /\ tmo' = [tmo EXCEPT ![w] = TRUE]
    /\ UNCHANGED <<todo, task, waitingCnt, activeCnt, next, created, ran, dropped>>

Wake(w) ==
    /\ ws[w] = "woken"
    /\ IF tmo[w] /\ todo = <<>>
       THEN \* `if !received && todo.is_empty() { return; }`
            /\ ws' = [ws EXCEPT ![w] = "exiting"]
            /\ waitingCnt' = waitingCnt - 1
            /\ UNCHANGED <<todo, task, ran>>
       ELSE PopOrWait(w, waitingCnt - 1)
    /\ tmo' = [tmo EXCEPT ![w] = FALSE]
    /\ UNCHANGED <<activeCnt, next, created, dropped>>

Exit(w) ==
    /\ ws[w] = "exiting"
    /\ ws' = [ws EXCEPT ![w] = "exited"]
    /\ activeCnt' = IF activeCnt >= BIG THEN activeCnt ELSE activeCnt - 1
    /\ UNCHANGED <<todo, task, tmo, waitingCnt, next, created, ran, dropped>>

Finish(w) ==
    /\ CanFinish
    /\ ws[w] = "run"
    /\ ws' = [ws EXCEPT ![w] = "fetch"]
    /\ UNCHANGED <<todo, task, tmo, waitingCnt, activeCnt, next, created, ran, dropped>>

PoolDrop ==
    /\ CanDrop /\ ~dropped
    /\ dropped' = TRUE
    /\ activeCnt' = BIG
    /\ ws' = [w \in Workers |-> IF ws[w] \in {"waitU", "waitT"} THEN "woken" ELSE ws[w]]
    /\ tmo' = [w \in Workers |-> IF ws[w] \in {"waitU", "waitT"} THEN FALSE ELSE tmo[w]]
    /\ UNCHANGED <<todo, task, waitingCnt, next, created, ran>>

Next ==
    \/ Dispatch \/ PoolDrop
    \/ \E w \in Workers : Start(w) \/ Fetch(w) \/ Timeout(w) \/ Wake(w) \/ Exit(w) \/ Finish(w)

Fairness ==
    \A w \in Workers : /\ WF_vars(Start(w)) /\ WF_vars(Fetch(w)) /\ WF_vars(Wake(w))
                       /\ WF_vars(Exit(w)) /\ WF_vars(Timeout(w)) /\ WF_vars(Finish(w))

Spec == Init /\ [][Next]_vars
FairSpec == Spec /\ Fairness

-----------------------------------------------------------------------------
TypeOK ==
    /\ \A w \in Workers : ws[w] \in {"none","init","fetch","waitU","waitT","woken","run","exiting","exited"}
    /\ next \in 0..N /\ created \in 0..MaxW

\* workers that are certain to look at `todo` again without waiting for anything
OnTheirWay == {w \in Workers : ws[w] \in {"woken", "fetch"}}

\* C08: a queued connection never waits for another connection to end: whenever something is
\* queued, some worker is already on its way to the queue (not blocked, not serving)
NoStarve == (todo # <<>>) => (OnTheirWay # {})
\* the inductive reason behind the repair of F3
QueueCovered == Len(todo) <= Cardinality(OnTheirWay)
\* C08: each accepted connection is served by exactly one worker
AtMostOneWorker == \A k \in 1..N : ran[k] <= 1
\* the counter is what the code believes it is
WaitingCntOK == waitingCnt = Cardinality({w \in Workers : ws[w] \in {"waitU", "waitT", "woken"}})
\* the thread bound of the model is never the reason for a missing behaviour
BoundNotHit == ~(next < N /\ ~dropped /\ SpawnThread /\ created = MaxW)

\* C08 (liveness): every accepted connection is eventually served, even though no other one ends
Served(k) == ran[k] >= 1
EveryConnServed == \A k \in 1..N : (next >= k) ~> Served(k)

\* C20: once every connection has ended and the idle period has passed everywhere, at most
\* MinThreads threads are left (extra workers are reclaimed)
Live == {w \in Workers : ws[w] \notin {"none", "exited"}}
Settled == /\ next = N /\ todo = <<>>
           /\ \A w \in Workers : ws[w] \in {"none", "exited", "waitU"}
Reclaimed == Settled => Cardinality(Live) <= MinThreads
EventuallyReclaimed == <>[](Cardinality(Live) <= MinThreads)
\* after a drop every thread that is not serving a connection goes away
DroppedAllGone == <>[](dropped => \A w \in Workers : ws[w] \in {"none", "exited", "run"})
=============================================================================
