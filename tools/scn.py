"""Concretiser: abstract scenario descriptions -> concrete scenarios for the drivers.

A concrete scenario carries (a) the exact bytes each client sends and how they are cut, (b) the
handler plan of every request, (c) the receiver programs, and (d) the judge-level description `j`
that the trace specification (specs/trace/T_Judge.tla) reads from the Scenario event.
"""
import json, random

MS = 1_000_000  # ns

def ref_last(version, conn_value):
    """C12 reference: does this message end the connection?"""
    v = (conn_value or "").lower()
    if conn_value is not None and "close" in v:
        return True
    if conn_value is not None and "upgrade" in v:
        return True
    if version == "1.0":
        return not (conn_value is not None and "keep-alive" in v)
    return False

def req_body_bytes(c, m, n, text=False):
    # (text: lines of words, as a form or a text upload would have -- read as a head they are malformed)
    pat = (("B%d.%d|" if not text else "B%d.%d a b\r\n") % (c, m)).encode()
    return bytes(pat[i % len(pat)] for i in range(n))

def chunk_encode(body, sizes, hexcase="lower", lead0=0, ext=""):
    out = b""
    pos = 0
    i = 0
    if not sizes:
        sizes = [len(body)] if body else []
    while pos < len(body):
        n = sizes[min(i, len(sizes) - 1)]
        n = max(1, min(n, len(body) - pos))
        h = "%x" % n
        if hexcase == "upper":
            h = h.upper()
        h = "0" * lead0 + h
        out += h.encode() + ext.encode() + b"\r\n" + body[pos:pos + n] + b"\r\n"
        pos += n
        i += 1
    out += b"0\r\n\r\n"
    return out

class Msg:
    """one message of a connection's byte stream"""
    def __init__(self, method="GET", version="1.1", headers=None, body_len=0, framing="none",
                 chunks=None, chunk_opts=None, expect=None, conn=None, cls="ok", why="C10", raw_head=None,
                 plan=None, target_suffix="", extra_headers=None, cl_name="Content-Length",
                 te_name="Transfer-Encoding", both=False, upgrade_tail=0, te_first=False, te_value="chunked", body_text=False):
        self.method = method
        self.version = version
        self.headers = headers  # explicit list of (name, value) or None for default
        self.body_len = body_len
        self.framing = framing  # none | cl | chunked | upgrade
        self.chunks = chunks
        self.chunk_opts = chunk_opts or {}
        self.expect = expect
        self.conn = conn
        self.cls = cls
        self.why = why
        self.raw_head = raw_head
        self.plan = plan or {"ans": {"how": "respond", "status": 200, "len": 5}}
        self.target_suffix = target_suffix
        self.extra_headers = extra_headers or []
        self.cl_name = cl_name
        self.te_name = te_name
        self.te_value = te_value      # the codings on the wire; the last one is always "chunked" in some case
        self.both = both
        self.te_first = te_first      # with both framing headers: Transfer-Encoding comes before Content-Length
        self.upgrade_tail = upgrade_tail
        self.body_text = body_text
        self.hsep = ": "              # between a header's name and its raw value on the wire

    def build(self, c, m):
        url = "/c%dm%d%s" % (c, m, self.target_suffix)
        body = req_body_bytes(c, m, self.body_len, self.body_text)
        hdrs = []
        if self.headers is not None:
            hdrs = list(self.headers)
        else:
            hdrs.append(("Host", "verif"))
            hdrs += self.extra_headers
            if self.conn is not None:
                hdrs.append(("Connection", self.conn))
            if self.expect is not None:
                hdrs.append(("Expect", self.expect))
            if self.framing == "chunked" and self.both and self.te_first:
                hdrs.append((self.te_name, self.te_value))
                hdrs.append(("X-Between", "1"))
                hdrs.append((self.cl_name, str(self.body_len)))
            else:
                if self.framing == "cl" or (self.framing == "chunked" and self.both):
                    hdrs.append((self.cl_name, str(self.body_len)))
                if self.framing == "chunked":
                    hdrs.append((self.te_name, self.te_value))
        if self.raw_head is not None:
            head = self.raw_head if isinstance(self.raw_head, bytes) else self.raw_head.encode("latin1")
            head = head.replace(b"@URL@", url.encode())
        else:
            head = ("%s %s HTTP/%s\r\n" % (self.method, url, self.version)).encode()
            for n, v in hdrs:
                head += ("%s%s%s\r\n" % (n, self.hsep, v)).encode("latin1")
            head += b"\r\n"
        if self.framing == "chunked":
            wire_body = chunk_encode(body, self.chunks, **self.chunk_opts)
        elif self.framing == "upgrade":
            wire_body = body
        else:
            wire_body = body
        expects = self.expect is not None and self.expect.lower() == "100-continue"
        if self.framing == "upgrade":
            bk = "upgrade"
        elif self.framing == "chunked":
            bk = "chunked"
        elif self.framing == "cl":
            if self.body_len == 0:
                bk = "none"
            elif self.body_len <= 1024 and not expects:
                bk = "small"
            else:
                bk = "large"
        else:
            bk = "none"
        # the Connection header actually on the wire decides persistence (C12 reference)
        conn_value = self.conn
        for n_, v_ in hdrs:
            if n_.lower() == "connection":
                conn_value = v_.strip(" \t")
                break
        a = self.plan["ans"]
        how = a["how"]
        st = a.get("status", 200)
        if how == "writer":
            rlen = sum(a.get("parts", []))
        else:
            rlen = a.get("len", 0)
            if a.get("fail_at") is not None:
                rlen = a["fail_at"]          # a chunked response ends, well-formed, where its reader failed
        nobody = self.method == "HEAD" or (100 <= st < 200) or st in (204, 304)
        noframe = how == "writer" and len(a.get("parts", [])) == 0
        wflush = how == "writer" and a.get("flush", "never") in ("each", "last")
        exp = None
        declared = self.body_len if self.framing == "cl" else None
        if self.framing in ("upgrade", "none") and not any(n_.lower() == "transfer-encoding" for n_, _ in hdrs):
            for n_, v_ in hdrs:
                if n_.lower() == "content-length" and v_.strip(" \t").isdigit():
                    declared = int(v_.strip(" \t"))      # a declared length is reported even when it does not frame the body
                    break
        if self.cls == "ok":
            exp = {"method": self.method, "url": url, "ver": [int(self.version[0]), int(self.version[2])],
                   "headers": [[n, v.strip(" \t")] for n, v in hdrs],
                   "body_length": declared}
        return {
            "bytes": head + wire_body,
            "head_len": len(head),
            "body": body,
            "exp": exp,
            "plan": self.plan if self.cls == "ok" else None,
            "ishead": self.method == "HEAD",
            "j": {"cls": self.cls, "why": self.why, "last": bool(self.cls == "ok" and ref_last(self.version, conn_value)),
                  "bk": bk, "blen": self.body_len, "exp": bool(expects), "how": how, "st": st, "rlen": rlen,
                  "nobody": bool(nobody), "wflush": bool(wflush), "noframe": bool(noframe),
                  "rfail": bool(how == "respond" and a.get("fail_at") is not None)},
        }

def conn(msgs, c, prog=None, cuts=None, window=None, no_read=False, trailing=b"", trailing_cls=None, trailing_why="C10"):
    """concrete connection from a list of Msg"""
    stream = b""
    cm = []
    jm = []
    for m, mm in enumerate(msgs):
        b = mm.build(c, m)
        hs = len(stream)
        stream += b["bytes"]
        he = hs + b["head_len"]
        be = len(stream)
        cm.append({"hs": hs, "he": he, "be": be, "exp": b["exp"], "plan": b["plan"],
                   "body_hex": b["body"].hex(), "ishead": b["ishead"]})
        j = dict(b["j"])
        j.update({"hs": hs, "he": he, "be": be})
        jm.append(j)
    if trailing and trailing_cls is not None:
        # the trailing bytes are a (malformed) message of their own
        hs = len(stream)
        e = hs + len(trailing)
        cm.append({"hs": hs, "he": e, "be": e, "body_hex": "", "ishead": False})
        jm.append({"hs": hs, "he": e, "be": e, "cls": trailing_cls, "why": trailing_why, "last": False, "bk": "none", "blen": 0,
                   "exp": False, "how": "respond", "st": 400, "rlen": 0, "nobody": False, "wflush": False, "noframe": False, "rfail": False})
    stream += trailing
    if prog is None:
        prog = [{"op": "send", "to": len(stream), "cuts": cuts or []}]
    d = {"stream_hex": stream.hex(), "msgs": cm, "prog": prog, "no_read": no_read}
    if window is not None:
        d["window"] = window
    return d, {"msgs": jm, "noread": bool(no_read)}, len(stream)

def scenario(sid, prop, conns, apps, horizon_ms=1000, single=None, reclaim=None, **extra):
    cc = []
    jc = []
    for (d, j, _n) in conns:
        cc.append(d)
        jc.append(j)
    sc = {"id": sid, "prop": prop, "conns": cc, "apps": apps, "horizon_ns": horizon_ms * MS,
          "judge": {"napps": len(apps), "single": (len(apps) == 1) if single is None else single,
                    "conns": jc, "reclaim": reclaim or [], "transport": extra.get("transport", "mem"), "resonly": bool(extra.get("resonly", False))}}
    sc.update(extra)
    return sc

def serve(kind="recv", mode="inline", ms=0, max_empty=1):
    return {"prog": [{"op": "serve", "kind": kind, "ms": ms, "mode": mode, "max_empty": max_empty}]}

def respond(status=200, length=5, declared=True, thr=None, piece=0, **kw):
    p = {"ans": {"how": "respond", "status": status, "len": length, "declared": declared, "piece": piece}}
    if thr is not None:
        p["ans"]["thr"] = thr
    p.update(kw)
    return p

def respond_failing(length, fail_at, how="err", status=200, **kw):
    """respond() with a chunked response whose body reader fails (error or panic) after fail_at bytes"""
    p = {"ans": {"how": "respond", "status": status, "len": length, "declared": False, "piece": 0,
                 "fail_at": fail_at, "fail_panic": how == "panic"}}
    p.update(kw)
    return p

def writer(parts, flush="last", status=200, **kw):
    p = {"ans": {"how": "writer", "status": status, "parts": list(parts), "flush": flush}}
    p.update(kw)
    return p

def drop(**kw):
    p = {"ans": {"how": "drop"}}
    p.update(kw)
    return p

def panic(**kw):
    p = {"ans": {"how": "panic"}}
    p.update(kw)
    return p

def keep(**kw):
    p = {"ans": {"how": "keep"}}
    p.update(kw)
    return p

def dump(scs, path):
    with open(path, "w") as f:
        for s in scs:
            f.write(json.dumps(s, separators=(",", ":")) + "\n")
