\* C08 thorough: 6 never-ending connections against MIN_THREADS = 4
SPECIFICATION FairSpec
CONSTANTS
  N = 6
  MinThreads = 4
  MaxW = 10
  CanFinish = FALSE
  CanDrop = FALSE
  DevPoolCountsWoken = FALSE
INVARIANTS TypeOK NoStarve QueueCovered AtMostOneWorker WaitingCntOK BoundNotHit
PROPERTIES EveryConnServed
CHECK_DEADLOCK FALSE
