SPECIFICATION WSpec
CONSTANTS
  Recv = {r1, r2}
  Progs <- WalkProgs
  NItems = 3
  NUnblock = 1
  T = 4
  Eps = 2
  MaxNow = 7
  AllowSpurious = TRUE
  DevPopTimeoutNoRecheck = FALSE
INVARIANT Emit
CONSTRAINT Bound
CHECK_DEADLOCK FALSE
