\* writes the reference outcome of every pipeline (CL_TIER quick: 1..2 messages, thorough: 1..3) to CL_OUT
SPECIFICATION GenSpec
CONSTANTS
  Wires <- Wires2
  DevKeepAliveWins = FALSE
  DevNoExpect10 = FALSE
CHECK_DEADLOCK FALSE
