//! virtual clock

use crate::cur;
use std::time::Duration;

#[derive(Clone, Copy, Debug, PartialEq, Eq, PartialOrd, Ord)]
pub struct Instant(u64);

impl Instant {
    pub fn now() -> Instant {
        match cur() {
            Some((rt, _)) => Instant(rt.now()),
            None => Instant(0),
        }
    }
    pub fn elapsed(&self) -> Duration {
        Duration::from_nanos(Instant::now().0.saturating_sub(self.0))
    }
    pub fn duration_since(&self, earlier: Instant) -> Duration {
        Duration::from_nanos(self.0.saturating_sub(earlier.0))
    }
    pub fn as_nanos(&self) -> u64 {
        self.0
    }
}

impl std::ops::Add<Duration> for Instant {
    type Output = Instant;
    fn add(self, d: Duration) -> Instant {
        Instant(self.0 + d.as_nanos() as u64)
    }
}

impl std::ops::Sub<Instant> for Instant {
    type Output = Duration;
    fn sub(self, o: Instant) -> Duration {
        Duration::from_nanos(self.0.saturating_sub(o.0))
    }
}
