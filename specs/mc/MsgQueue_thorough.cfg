\* 3 receivers x every program assignment, 3 items, 2 unblocks, spurious wake-ups allowed
SPECIFICATION FairSpec
CONSTANTS
  Recv = {r1, r2, r3}
  Progs <- ProgsThorough
  NItems = 3
  NUnblock = 2
  T = 4
  Eps = 2
  MaxNow = 9
  AllowSpurious = TRUE
  DevPopTimeoutNoRecheck = FALSE
INVARIANTS TypeOK NoDup NoLoss Fifo NoLostWakeup ReleasesBounded TokenConservation TimedBounds TimedNeverLate
CHECK_DEADLOCK FALSE
