#!/usr/bin/env python3
"""Evaluate a seeded change WITHOUT touching /repo: a scratch worktree of /repo gets the patch, a
scratch copy of the harness is pointed at it, and the checks run with their scratch / evidence
directories redirected.  Several evaluations can run side by side.

usage: isolated.py <patch.diff> <Cnn> [<Cnn>...]      prints one line per check
"""
import json, os, re, shutil, subprocess, sys, tempfile

def main():
    patch = os.path.abspath(sys.argv[1])
    props = sys.argv[2:]
    root = tempfile.mkdtemp(prefix="iso_", dir="/tmp")
    repo = os.path.join(root, "repo")
    try:
        subprocess.check_call(["git", "-C", "/repo", "worktree", "add", "-q", "--detach", repo, "HEAD"])
        if patch != "/dev/null":
            subprocess.check_call(["git", "-C", repo, "apply", patch])
        # a scratch copy of the whole machinery (specs, tools, harness), so that /verif can be edited meanwhile
        v = os.path.join(root, "verif")
        shutil.copytree("/verif", v, ignore=shutil.ignore_patterns("target", "work", ".git", "evidence", "__pycache__"))
        h = os.path.join(v, "harness")
        for d in ("d1", "d2"):
            p = os.path.join(h, d, "shadow", "Cargo.toml")
            s = open(p).read().replace('path = "/repo/src/lib.rs"', 'path = "%s/src/lib.rs"' % repo)
            open(p, "w").write(s)
        env = dict(os.environ, VERIF_HARNESS=h, VERIF_WORK=os.path.join(root, "work"), VERIF_EVIDENCE=os.path.join(root, "evidence"),
                   VERIF_TMP=os.path.join(root, "work"))
        check = os.path.join(v, "check")
        for pr in props:
            p = subprocess.run([check, pr], cwd=v, env=env, stdout=subprocess.PIPE, stderr=subprocess.STDOUT, text=True, timeout=(9000 if os.environ.get("VERIF_TIER") == "thorough" else 3600))
            out = p.stdout
            guards = {}
            for rp in re.findall(r"^VIOLATION property=\w+ replay=(\S+)", out, re.M):
                try:
                    r = json.load(open(rp))
                    for vi in r.get("violations", [{"guard": r.get("guard", "?")}]):
                        guards[vi["guard"]] = guards.get(vi["guard"], 0) + 1
                except Exception:
                    pass
            tool = re.search(r"^TOOL-ERROR.*", out, re.M)
            print("%s %s exit=%d violations=%d guards=%s %s" % (os.path.basename(os.path.dirname(patch)) or patch, pr, p.returncode,
                  len(re.findall(r"^VIOLATION", out, re.M)), json.dumps(guards, sort_keys=True), tool.group(0)[:150] if tool else ""), flush=True)
    finally:
        subprocess.call(["git", "-C", "/repo", "worktree", "remove", "--force", repo])
        shutil.rmtree(root, ignore_errors=True)

if __name__ == "__main__":
    main()
