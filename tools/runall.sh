#!/bin/sh
# run every claimed check (tier $1, default quick) and summarise
tier="${1:-quick}"
cd /verif
for p in $(python3 -c "import json;print(' '.join(c['property_id'] for c in json.load(open('/verif/MANIFEST.json'))['checks']))"); do
  s=$(date +%s)
  ./check $p --tier $tier > /verif/work/all_$p.log 2>&1; rc=$?
  e=$(date +%s)
  echo "$p exit=$rc $((e-s))s $(grep -c '^VIOLATION' /verif/work/all_$p.log) violations $(grep -c '^KNOWN' /verif/work/all_$p.log) known"
done
