#!/bin/sh
# every stored seeded change against the check of its own property (isolated: /repo is not touched); a line with
# exit=0 is a change that is no longer detected.  usage: regress.sh <lanes>   -> work/regress.log
lanes="${1:-4}"
cd /verif
for d in $(ls -d /verif/seeded/C*-* | sort); do
  own=$(basename $d | cut -d- -f1)
  # C06-2 is the C01-1 change proposed for C06: it is C01's to catch (DESIGN.md section 8)
  [ "$(basename $d)" = "C06-2" ] && own=C01
  # C09-2 still applies textually but no longer compiles since the repair of F8 (kept for the record)
  [ "$(basename $d)" = "C09-2" ] && continue
  # C16-14 stopped being a violation with the repair of F11, which it led to (kept for the record)
  [ "$(basename $d)" = "C16-14" ] && continue
  [ -f $d/patch.diff ] && git -C /repo apply --check $d/patch.diff 2>/dev/null && echo "$d/patch.diff $own"
done > /verif/work/regress.jobs
cat /verif/work/regress.jobs | xargs -P "$lanes" -L 1 sh -c 'timeout 5400 /verif/tools/isolated.py "$@" 2>&1 | grep -E "exit="' _ > /verif/work/regress.log 2>&1
echo REGRESS-DONE >> /verif/work/regress.log
