\* C11: handlers never finish a request (they may read bodies): read-ahead must not depend on answers
SPECIFICATION FairSpec
CONSTANTS
  Pipelines <- AllPipes
  Mode = "hold"
  DevChunkedNoDrain = FALSE
INVARIANTS TypeOK HeadsAtMessageStart BodyPosition ReadBounded DeliveredPrefix
PROPERTIES ReadAhead SuccessorReleased
CHECK_DEADLOCK FALSE
