#!/usr/bin/env python3
"""prints the measured-coverage table of DESIGN.md section 5 from the evidence files of the last run"""
import json
print("| id | scenarios | executions | distinct traces validated by TLC | mechanism configs (distinct states) | marker traces accepted / events | spec→impl walks / actions | wall s |")
print("|---|---|---|---|---|---|---|---|")
for i in range(1, 21):
    p = "C%02d" % i
    e = json.load(open('/verif/evidence/%s.json' % p))
    c = e["coverage"]
    fid = c.get("mechanism_fidelity") or {}
    walks = (fid.get("spec_to_impl_walks") or {}) if isinstance(fid, dict) else {}
    cfgs = ", ".join("%s (%s)" % (t["config"].split(" ")[0] if not t["config"].startswith("MC_Fn") else t["config"][:12], t.get("states", t.get("cases", ""))) for t in c.get("tlc_configs", []))
    print("| %s | %s | %s | %s | %s | %s | %s | %s |" % (
        p, c.get("scenarios") or "—", c.get("evaluations"), c.get("traces_validated_against_impl"), cfgs or "—",
        ("%s / %s" % (fid.get("accepted"), fid.get("marker_events"))) if fid else "—",
        ("%s / %s" % (walks.get("conform"), walks.get("actions_executed_on_the_real_code"))) if walks else "—", round(e["wall_s"])))
