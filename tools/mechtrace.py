"""prepare mechanism-level traces (marker events) from D1 traces, and validate them with TLC"""
import json, os, re, subprocess
import vlib

def queue_events(lines):
    """one execution (list of json lines) -> list of mechanism events for T_MsgQueue, or None if the
    execution uses something the mechanism spec cannot represent (another timeout value)"""
    out = [{"ev": "Reset"}]
    cur = 0
    incall = set()
    for l in lines:
        e = json.loads(l)
        ev = e.get("ev")
        tick = e.get("now", 0) // 100
        relevant = ev in ("RecvCall", "RecvRet", "Spurious") or (ev == "mark" and e["m"].startswith("q."))
        if relevant and tick > cur:
            out.append({"ev": "tick", "tick": tick})
            cur = tick
        if ev == "Spurious":
            for r in sorted(incall):
                out.append({"ev": "spur", "r": r})
        if ev == "RecvCall":
            incall.add(e["t"] + 1)
        if ev == "RecvRet":
            incall.discard(e["t"] + 1)
        if ev == "RecvCall":
            kind = {"recv": "pop", "iter": "pop", "try": "try", "timeout": "timed"}[e["kind"]]
            if kind == "timed" and e["ms"] != 20:
                return None
            out.append({"ev": "call", "r": e["t"] + 1, "kind": kind, "tick": tick})
        elif ev == "RecvRet":
            out.append({"ev": "ret", "r": e["t"] + 1, "res": e["res"], "tick": tick})
        elif ev == "mark" and e["m"].startswith("q."):
            th = e["th"]
            r = int(th.split(":")[1]) + 1 if th.startswith("app:") else 0
            if e["m"] == "q.push":
                out.append({"ev": "push", "len": e["len"], "tick": tick})
            elif e["m"] == "q.unblock":
                out.append({"ev": "unblock", "len": e["len"], "tick": tick})
            elif e["m"] == "q.pop":
                if r == 0:
                    return None
                out.append({"ev": "check", "r": r, "len": e["len"], "tick": tick})
            elif e["m"] == "q.giveup":
                out.append({"ev": "giveup", "r": r, "timedout": e["timedout"], "len": e["len"], "tick": tick})
        elif ev == "Quiescent" and e.get("ph", 0) >= 2:
            break
    # lookahead: receivers whose next event is a timed-out give-up are the candidates for a silent Fire
    nxt = {}
    for e in reversed(out):
        if "r" in e and e["ev"] in ("check", "giveup", "ret", "call"):
            nxt[e["r"]] = (e["ev"] == "giveup" and e["timedout"] == 1)
        e["tf"] = sorted(r for r, v in nxt.items() if v)
    return out

def validate_mech(spec, cfg, exs, outdir, tag, dev_const=None):
    """exs: list of (x, events). Returns (accepted, divergences[list of (x, event index)]).
    Large sets are validated in batches of at most ~400 000 events (one TLC run each); a batch that does not finish in
    its time is counted as not validated (the figure is a measurement, never a verdict), it is not a tool error."""
    batches = []
    cur = []
    n = 0
    for x, evs in exs:
        if cur and n + len(evs) > 400000:
            batches.append(cur)
            cur = []
            n = 0
        cur.append((x, evs))
        n += len(evs)
    if cur:
        batches.append(cur)
    if len(batches) > 1:
        accepted = 0
        div = []
        for bi, b in enumerate(batches):
            try:
                a, d = _validate_mech_batch(spec, cfg, b, outdir, "%s_b%d" % (tag, bi))
            except vlib.ToolError as e:
                if "timed out" not in str(e):
                    raise
                d = [{"execution": b[0][0], "event_index": -1, "event": None, "note": "batch of %d executions not validated in time" % len(b)}]
                a = 0
            accepted += a
            div += d
        return accepted, div
    return _validate_mech_batch(spec, cfg, exs, outdir, tag)

def _validate_mech_batch(spec, cfg, exs, outdir, tag):
    os.makedirs(outdir, exist_ok=True)
    accepted = 0
    div = []
    todo = list(exs)
    rounds = 0
    while todo and rounds < 12:
        rounds += 1
        p = os.path.join(outdir, "%s.%d.ndjson" % (tag, rounds))
        bounds = []
        n = 0
        with open(p, "w") as f:
            for x, evs in todo:
                for e in evs:
                    f.write(json.dumps(e, separators=(",", ":")) + "\n")
                n += len(evs)
                bounds.append(n)
        env = {"TRACE": p}
        rc, out, wall = vlib.tlc("mech_%s_%d" % (tag, rounds), cfg, spec, os.path.join(vlib.SPECS, "trace"), workers=1, timeout=900,
                                 env=env, java_opts="-Xmx4g -Xss1g")
        m = re.search(r'<<"MECH", (\d+), (\d+)>>', out)
        if not m:
            raise vlib.ToolError("mechanism trace validation failed:\n" + out[-2500:])
        total, diam = int(m.group(1)), int(m.group(2))
        consumed = diam - 1
        if consumed >= total:
            accepted += len(todo)
            break
        # the execution containing line consumed+1 diverges
        k = next(i for i, b in enumerate(bounds) if b > consumed)
        accepted += k
        start = bounds[k - 1] if k > 0 else 0
        div.append({"execution": todo[k][0], "event_index": consumed - start, "event": todo[k][1][consumed - start] if consumed - start < len(todo[k][1]) else None})
        todo = todo[k + 1:]
    return accepted, div

def pool_events(lines):
    out = [{"ev": "Reset"}]
    ntasks = 0
    for l in lines:
        e = json.loads(l)
        if e.get("ev") != "mark" or not e["m"].startswith("pool."):
            continue
        th = e["th"]
        w = int(th.split(":")[1]) if th.startswith("lib:") else -1
        m = e["m"][5:]
        if m == "dispatch":
            ntasks += 1
            if ntasks > 70:
                return None
            out.append({"ev": "dispatch", "spawn": e["spawn"], "todo": e["todo"], "waiting": e["waiting"]})
        elif m == "start":
            out.append({"ev": "start", "w": w, "task": e["task"], "active": e["active"] if e["active"] < 999999 else -1})
        elif m == "take":
            out.append({"ev": "take", "w": w, "todo": e["todo"], "waiting": e["waiting"]})
        elif m == "wait":
            out.append({"ev": "wait", "w": w, "timed": e["timed"], "waiting": e["waiting"]})
        elif m == "wake":
            out.append({"ev": "wake", "w": w, "received": e["received"], "todo": e["todo"], "waiting": e["waiting"]})
        elif m == "finish":
            out.append({"ev": "finish", "w": w})
        elif m == "drop":
            out.append({"ev": "drop"})
        if w >= 90:
            return None
    nxt = {}
    nxr = {}
    for e in reversed(out):
        if "w" in e:
            nxt[e["w"]] = (e["ev"] == "wake" and e["received"] == 0)
            nxr[e["w"]] = (e["ev"] == "wake" and e["received"] == 1)
        e["tw"] = sorted(w for w, v in nxt.items() if v)
        if e["ev"] == "dispatch":
            e["nw"] = sorted(w for w, v in nxr.items() if v)
    return out

def spec_walks(n, outdir, seed=1, kind="queue"):
    """specification -> implementation: TLC simulates the mechanism spec (MC_MsgQueueWalk / MC_TaskPoolWalk), the driver
    steps every behaviour through the real server and compares the abstract state after each action"""
    os.makedirs(outdir, exist_ok=True)
    cfg, mod = ("MsgQueue_walk.cfg", "MC_MsgQueueWalk.tla") if kind == "queue" else ("TaskPool_walk.cfg", "MC_TaskPoolWalk.tla")
    rc, out, wall = vlib.tlc("walkgen", cfg, mod, os.path.join(vlib.SPECS, "mc"), workers=1, timeout=600,
                             extra=["-simulate", "num=%d" % n, "-depth", "45" if kind == "queue" else "50", "-seed", str(seed)], java_opts="-Xmx3g -Xss64m")
    wp = os.path.join(outdir, "walks.ndjson")
    k = 0
    with open(wp, "w") as f:
        for line in out.splitlines():
            m = re.match(r'^<<"WALK", (".*")>>\s*$', line)
            if m:
                f.write(json.loads(m.group(1)) + "\n")
                k += 1
    if k == 0:
        raise vlib.ToolError("TLC produced no walks:\n" + out[-1500:])
    op = os.path.join(outdir, "walks.out")
    skip = 0
    conform = steps = 0
    div = []
    for attempt in range(200):
        part = op + ".%d" % attempt
        rc, o = vlib.sh([vlib.D1, "walk", "--kind", kind, "--walks", wp, "--out", part, "--skip", str(skip)], timeout=1800)
        m = re.search(r"(DONE|PARTIAL next_skip=(\d+)) walks=(\d+) conform=(\d+) steps=(\d+)", o)
        if rc not in (0, 3) or not m:
            raise vlib.ToolError("walk driver failed: " + o[-1500:])
        conform += int(m.group(4))
        steps += int(m.group(5))
        for line in open(part):
            r = json.loads(line)
            if not r["ok"]:
                div.append(r)
        if m.group(1) == "DONE":
            break
        skip = int(m.group(2))
    else:
        raise vlib.ToolError("walk driver did not finish")
    return {"behaviours_generated_by_tlc": k, "actions_executed_on_the_real_code": steps, "conform": conform,
            "divergences": div[:10], "n_divergences": len(div), "tlc_wall_s": round(wall, 1)}


def writer_chains(lines):
    """marker events of one execution -> list of per-connection event lists for T_WriterChain"""
    chains = {}
    for l in lines:
        if '"ev":"mark"' not in l or '"m":"w.' not in l:
            continue
        e = json.loads(l)
        chains.setdefault(e["chain"], []).append((e["k"], e["m"][2:]))
    out = []
    for ch, ops in chains.items():
        n = max(k for k, _ in ops)
        if n > 12:
            out.append(None)      # longer than the trace configuration's N: not mapped
            continue
        plan = [[] for _ in range(n)]
        for k, op in ops:
            if op == "write":
                plan[k - 1].append(["w", "b"])
            elif op == "flush":
                plan[k - 1].append(["f"])
        evs = [{"ev": "Reset", "plan": plan}]
        for k, op in ops:
            evs.append({"ev": "op", "k": k, "op": op})
        out.append(evs)
    return out


def server_events(lines):
    """marker events of one execution -> events for T_ServerLife (the life of the listening socket)"""
    out = [{"ev": "Reset"}]
    dropping = False
    nconn = 0
    for l in lines:
        if '"ev":"mark"' in l:
            if '"m":"srv.' not in l and '"m":"net.connect"' not in l:
                continue
            e = json.loads(l)
            m = e["m"]
            if m == "net.connect":
                if dropping and e["th"] == "main":
                    out.append({"ev": "wakeconn", "ok": bool(e["ok"])})
                else:
                    nconn += 1
                    if nconn > 80:
                        return None       # more clients than the trace configuration names
                    out.append({"ev": "connect", "ok": bool(e["ok"])})
            elif m == "srv.check":
                out.append({"ev": "check"})
            elif m == "srv.accept":
                if not e["ok"]:
                    return None           # accept() itself failed: not modelled
                out.append({"ev": "accept"})
            elif m == "srv.exit":
                out.append({"ev": "exit"})
            elif m == "srv.flag":
                out.append({"ev": "flag"})
        elif '"ev":"ServerDrop"' in l and '"ev":"ServerDropped"' not in l:
            dropping = True
        elif '"ev":"ServerDropped"' in l:
            dropping = False
            out.append({"ev": "dropped"})
    return out
