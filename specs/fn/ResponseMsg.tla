---------------------------- MODULE ResponseMsg ----------------------------
(***************************************************************************)
(* C04: what a conforming client must be able to recover from the bytes of *)
(* one response.  `o` is an observation produced by the harness's          *)
(* independent RFC 7230 client parser from the bytes raw_print wrote.      *)
(***************************************************************************)
EXTENDS Integers, Sequences

\* no body octets at all in answer to HEAD and with 1xx, 204, 304
ExpectBody(head, status) == ~head /\ ~(status >= 100 /\ status <= 199) /\ status \notin {204, 304}

Guards(o) ==
    << <<o.frames = 1 /\ o.junk = 0, "NotExactlyOneMessage">>,
       <<o.wf, "Malformed">>,
       <<o.status = o.case.status, "StatusDiffers">>,
       <<o.delim # "close", "DelimitedByClose">>,
       \* the client that has to find the end is the one that sent the request: an HTTP/1.0 client knows no transfer coding
       <<o.case.ver = "1.0" => o.delim # "chunked", "CodingUnknownToClient">>,
       <<ExpectBody(o.case.head, o.case.status) => (o.bodyok /\ o.blen = o.case.len), "BodyDiffers">>,
       <<(~ExpectBody(o.case.head, o.case.status)) => o.wire = 0, "BodyOctetsOnNoBodyResponse">> >>
=============================================================================
