//! driver binary: `d1` (controllable runtime) or `d2` (real sockets), same source.
//!
//!   d1 run --scenarios F --out TRACE [--sched random|pct|delay|replay] [--seed S] [--runs N]
//!          [--bound K] [--max-execs M] [--choices "0,1,..."]
//!   d2 run --scenarios F --out TRACE [--runs N] [--quiet-ms Q]
//!   d? fn  --cases F --out OBS          (direct-API driver D3, see fncases.rs)

mod fncases;
mod httpc;
mod run;
mod scenario;
#[cfg(tiny_http_verif)]
mod walk;
mod world;

use scenario::Scenario;
use std::alloc::{GlobalAlloc, Layout, System};
use std::io::{BufRead, Write};
use std::sync::atomic::{AtomicUsize, Ordering as AOrd};

/// records the largest single allocation request (C14: memory proportional to bytes received)
pub struct TrackingAlloc;
pub static MAX_ALLOC: AtomicUsize = AtomicUsize::new(0);

unsafe impl GlobalAlloc for TrackingAlloc {
    unsafe fn alloc(&self, l: Layout) -> *mut u8 {
        MAX_ALLOC.fetch_max(l.size(), AOrd::Relaxed);
        System.alloc(l)
    }
    unsafe fn dealloc(&self, p: *mut u8, l: Layout) {
        System.dealloc(p, l)
    }
    unsafe fn alloc_zeroed(&self, l: Layout) -> *mut u8 {
        MAX_ALLOC.fetch_max(l.size(), AOrd::Relaxed);
        System.alloc_zeroed(l)
    }
    unsafe fn realloc(&self, p: *mut u8, l: Layout, n: usize) -> *mut u8 {
        MAX_ALLOC.fetch_max(n, AOrd::Relaxed);
        System.realloc(p, l, n)
    }
}

#[global_allocator]
static GLOBAL: TrackingAlloc = TrackingAlloc;

pub fn alloc_event() -> String {
    let m = MAX_ALLOC.load(AOrd::Relaxed);
    format!("\"ev\":\"Alloc\",\"maxk\":{}", (m / 1024).min(2_000_000_000))
}

fn arg(args: &[String], name: &str) -> Option<String> {
    args.iter().position(|a| a == name).and_then(|i| args.get(i + 1).cloned())
}

fn write_events(out: &mut dyn Write, x: &str, evs: &[world::Event], base: usize) -> usize {
    let mut n = 0;
    for e in evs {
        writeln!(
            out,
            "{{\"x\":{},\"i\":{},\"th\":{},\"now\":{},{}}}",
            run::js(x),
            base + n,
            run::js(&e.th),
            e.now / 1000,
            e.body
        )
        .unwrap();
        n += 1;
    }
    n
}

fn scenario_event(sc: &Scenario) -> String {
    format!(
        "\"ev\":\"Scenario\",\"sid\":{},\"prop\":{},\"drv\":{},\"j\":{}",
        run::js(&sc.id),
        run::js(&sc.prop),
        run::js(world::DRIVER),
        sc.judge
    )
}

#[cfg(tiny_http_verif)]
mod ctl {
    use super::*;
    use std::sync::{Arc, Mutex};
    use std::time::Duration;
    use tiny_http_vrt::sched::{DelaySched, DemoteSched, PctSched, RandomSched, ReplaySched};
    use tiny_http_vrt::{Execution, Kind, RunResult, Scheduler};

    pub struct Out {
        pub events: Vec<world::Event>,
        pub choices: Vec<(u32, u32)>,
        pub clean: bool,
    }

    fn qevent(exec: &Execution, ph: i32, r: &RunResult, nconn: usize) {
        let snap = exec.snapshot();
        let res = match r {
            RunResult::Idle => "idle",
            RunResult::Runaway => "runaway",
            RunResult::RealTimeout => "hang",
        };
        let lib_live = snap.iter().filter(|t| t.kind == Kind::Lib && !t.finished).count();
        let lib_timed = snap
            .iter()
            .filter(|t| t.kind == Kind::Lib && !t.finished && t.deadline.is_some())
            .count();
        let env: Vec<String> = snap
            .iter()
            .filter(|t| t.kind == Kind::Env && !t.finished)
            .map(|t| format!("[{},{}]", run::js(&t.name), run::js(t.blocked_on)))
            .collect();
        let cs: Vec<String> = {
            let reg = run::REGISTRY.lock().unwrap();
            (0..nconn)
                .map(|c| reg.iter().find(|(k, _)| *k == c).map(|(_, cl)| cl.consumed()).unwrap_or(-1).to_string())
                .collect()
        };
        if ph < 0 {
            exec.log(format!(
                "\"ev\":\"Probe\",\"k\":{},\"lib\":{},\"libtimed\":{}",
                -ph,
                lib_live,
                lib_timed
            ));
            return;
        }
        exec.log(format!(
            "\"ev\":\"Quiescent\",\"ph\":{},\"res\":{},\"lib\":{},\"libtimed\":{},\"cs\":[{}],\"env\":[{}]",
            ph,
            run::js(res),
            lib_live,
            lib_timed,
            cs.join(","),
            env.join(",")
        ));
    }

    pub fn run_one(sc: &Scenario, sched: Box<dyn Scheduler>) -> Out {
        let exec = Execution::new(sched);
        exec.log(scenario_event(sc));
        let sc2 = sc.clone();
        exec.spawn_env("main", move || run::env_main(sc2));
        run::REGISTRY.lock().unwrap().clear();
        MAX_ALLOC.store(0, AOrd::Relaxed);
        let real = Duration::from_secs(30);
        let mut h = sc.horizon_ns;
        let mut bad = false;
        let nconn = sc.conns.len();
        for (k, t) in sc.probes_ns.iter().enumerate() {
            let r = exec.run_until(*t, real);
            qevent(&exec, -(k as i32 + 1), &r, nconn);
            if !matches!(r, RunResult::Idle) {
                bad = true;
            }
        }
        for ph in 0..4i32 {
            if bad {
                break;
            }
            if ph > 0 {
                exec.set_phase(ph as u64);
                h += if ph == 3 { 60_000_000_000 } else { 1_000_000_000 };
            }
            let r = exec.run_until(h, real);
            qevent(&exec, ph, &r, nconn);
            if !matches!(r, RunResult::Idle) {
                bad = true;
                break;
            }
        }
        let snap = exec.snapshot();
        run::REGISTRY.lock().unwrap().clear();
        let leaked: Vec<String> = snap.iter().filter(|t| !t.finished).map(|t| run::js(&t.name)).collect();
        let clean = leaked.is_empty() && !bad;
        exec.log(alloc_event());
        exec.log(format!(
            "\"ev\":\"End\",\"clean\":{},\"leaked\":[{}],\"steps\":{}",
            clean,
            leaked.join(","),
            exec.steps()
        ));
        Out {
            events: exec.take_events().into_iter().map(|e| world::Event { i: e.i, th: e.th, now: e.now, body: e.body }).collect(),
            choices: exec.choices(),
            clean,
        }
    }

    pub fn main_run(args: &[String]) {
        let scen = arg(args, "--scenarios").expect("--scenarios");
        let outp = arg(args, "--out").expect("--out");
        let sched = arg(args, "--sched").unwrap_or_else(|| "random".into());
        let seed: u64 = arg(args, "--seed").and_then(|s| s.parse().ok()).unwrap_or(1);
        let runs: u64 = arg(args, "--runs").and_then(|s| s.parse().ok()).unwrap_or(1);
        let bound: usize = arg(args, "--bound").and_then(|s| s.parse().ok()).unwrap_or(2);
        let max_execs: u64 = arg(args, "--max-execs").and_then(|s| s.parse().ok()).unwrap_or(2000);
        let max_leak: u64 = arg(args, "--max-leaked").and_then(|s| s.parse().ok()).unwrap_or(400);
        let f = std::io::BufReader::new(std::fs::File::open(&scen).expect("open scenarios"));
        let mut out = std::io::BufWriter::new(std::fs::File::create(&outp).expect("create out"));
        let mut side = std::io::BufWriter::new(std::fs::File::create(format!("{}.sched", outp)).unwrap());
        let mut total = 0u64;
        let mut unclean = 0u64;
        let skip: u64 = arg(args, "--skip").and_then(|s| s.parse().ok()).unwrap_or(0);
        let mut idx = 0u64;
        for line in f.lines() {
            let line = line.unwrap();
            if line.trim().is_empty() {
                continue;
            }
            idx += 1;
            if idx <= skip {
                continue;
            }
            let sc: Scenario = match serde_json::from_str(&line) {
                Ok(s) => s,
                Err(e) => {
                    eprintln!("TOOL-ERROR bad scenario line: {}", e);
                    std::process::exit(2);
                }
            };
            let mut emit = |x: &str, o: &Out, kind: &str, sd: u64, out: &mut dyn Write, side: &mut dyn Write| {
                write_events(out, x, &o.events, 0);
                let ch: Vec<String> = o.choices.iter().map(|(_, i)| i.to_string()).collect();
                writeln!(
                    side,
                    "{{\"x\":{},\"sched\":{},\"seed\":{},\"choices\":[{}]}}",
                    run::js(x),
                    run::js(kind),
                    sd,
                    ch.join(",")
                )
                .unwrap();
            };
            match sched.as_str() {
                "delay" => {
                    // delay-bounded systematic exploration
                    let mut stack: Vec<Vec<(usize, usize)>> = vec![vec![]];
                    let mut n = 0u64;
                    while let Some(dev) = stack.pop() {
                        if n >= max_execs {
                            break;
                        }
                        let seen = Arc::new(Mutex::new(Vec::new()));
                        let o = run_one(&sc, Box::new(DelaySched::new(dev.clone(), seen.clone())));
                        let x = format!("{}#d{}", sc.id, n);
                        emit(&x, &o, "delay", 0, &mut out, &mut side);
                        n += 1;
                        total += 1;
                        if !o.clean {
                            unclean += 1;
                        }
                        if dev.len() < bound {
                            let seen = seen.lock().unwrap().clone();
                            let start = dev.last().map(|d| d.0 + 1).unwrap_or(0);
                            // children in reverse so that early deviations are explored first
                            for p in (start..seen.len()).rev() {
                                for o in (1..seen[p] as usize).rev() {
                                    let mut d = dev.clone();
                                    d.push((p, o));
                                    stack.push(d);
                                }
                            }
                        }
                    }
                }
                "demote" => {
                    // one demotion, placed at every choice point in turn, over both base orders
                    for asc in [true, false] {
                        let mut n = 0u64;
                        let mut at = 0usize;
                        let mut points = 1usize;
                        while at < points && n < max_execs / 2 {
                            let seen = Arc::new(Mutex::new(Vec::new()));
                            let o = run_one(&sc, Box::new(DemoteSched::new(at, asc, seen.clone())));
                            let x = format!("{}#m{}{}", sc.id, if asc { "a" } else { "d" }, at);
                            emit(&x, &o, "demote", 0, &mut out, &mut side);
                            n += 1;
                            total += 1;
                            if !o.clean {
                                unclean += 1;
                            }
                            points = points.max(seen.lock().unwrap().len());
                            at += 1;
                        }
                    }
                }
                "replay" => {
                    let ch: Vec<u32> = arg(args, "--choices")
                        .unwrap_or_default()
                        .split(',')
                        .filter_map(|s| s.trim().parse().ok())
                        .collect();
                    let o = run_one(&sc, Box::new(ReplaySched::new(ch)));
                    let x = format!("{}#replay", sc.id);
                    emit(&x, &o, "replay", 0, &mut out, &mut side);
                    total += 1;
                }
                _ => {
                    for r in 0..runs {
                        let sd = seed.wrapping_mul(1_000_003).wrapping_add(r).wrapping_add(idx * 7919);
                        let s: Box<dyn Scheduler> = if sched == "pct" || (sched == "mix" && r % 2 == 1) {
                            Box::new(PctSched::new(sd, 3, 400))
                        } else {
                            Box::new(RandomSched::new(sd))
                        };
                        let o = run_one(&sc, s);
                        let x = format!("{}#{}", sc.id, r);
                        emit(&x, &o, &sched, sd, &mut out, &mut side);
                        total += 1;
                        if !o.clean {
                            unclean += 1;
                        }
                    }
                }
            }
            if unclean >= max_leak {
                // too many leaked OS threads in this process: let the orchestrator restart us
                out.flush().unwrap();
                side.flush().unwrap();
                println!("PARTIAL next_skip={} executions={} unclean={}", idx, total, unclean);
                std::process::exit(3);
            }
        }
        out.flush().unwrap();
        side.flush().unwrap();
        println!("DONE executions={} unclean={}", total, unclean);
    }
}

#[cfg(not(tiny_http_verif))]
mod ctl {
    use super::*;
    use std::sync::atomic::Ordering;
    use std::time::{Duration, Instant};

    fn settle(quiet_ms: u64, max_ms: u64) -> bool {
        let g = world::global();
        let start = Instant::now();
        loop {
            std::thread::sleep(Duration::from_millis(5));
            let now_us = world::now_ns() / 1000;
            let last = g.last_event_us.load(Ordering::SeqCst);
            if now_us.saturating_sub(last) >= quiet_ms * 1000 {
                return true;
            }
            if start.elapsed() > Duration::from_millis(max_ms) {
                return false;
            }
        }
    }

    fn threads_now() -> usize {
        std::fs::read_dir("/proc/self/task").map(|d| d.count()).unwrap_or(0)
    }

    pub fn run_one(sc: &Scenario, quiet_ms: u64) -> (Vec<world::Event>, bool) {
        world::reset_global();
        MAX_ALLOC.store(0, AOrd::Relaxed);
        let base_threads = threads_now();
        world::log(scenario_event(sc));
        let sc2 = sc.clone();
        let main = world::spawn("main", move || run::env_main(sc2));
        // the longest planned pause decides how long "quiet" has to last
        let mut longest: u64 = 0;
        for c in sc.conns.iter() {
            for s in c.prog.iter() {
                match s {
                    scenario::CStep::Sleep { ns } => longest = longest.max(*ns),
                    scenario::CStep::Send { gap_ns, .. } => longest = longest.max(*gap_ns),
                    _ => {}
                }
            }
            for m in c.msgs.iter() {
                if let Some(p) = &m.plan {
                    longest = longest.max(p.delay_ns);
                }
            }
        }
        fn app_longest(steps: &[scenario::AStep], l: &mut u64) {
            for s in steps {
                match s {
                    scenario::AStep::Sleep { ns } => *l = (*l).max(*ns),
                    scenario::AStep::Recv { ms, .. }
                    | scenario::AStep::Serve { ms, .. }
                    | scenario::AStep::Collect { ms, .. } => *l = (*l).max(*ms * 2_000_000),
                    scenario::AStep::Repeat { body, .. } => app_longest(body, l),
                    _ => {}
                }
            }
        }
        for a in sc.apps.iter() {
            app_longest(&a.prog, &mut longest);
        }
        let q = quiet_ms + longest / 1_000_000;
        for ph in 0..4u32 {
            if ph > 0 {
                world::set_phase(ph as u64);
            }
            if ph == 3 {
                break;
            }
            let ok = settle(q, 60_000);
            world::log(format!(
                "\"ev\":\"Quiescent\",\"ph\":{},\"res\":{},\"lib\":{},\"libtimed\":0,\"cs\":[],\"env\":[]",
                ph,
                run::js(if ok { "settled" } else { "busy" }),
                threads_now() as i64 - base_threads as i64
            ));
        }
        // wait for main to finish (bounded)
        let start = Instant::now();
        let mut clean = false;
        while start.elapsed() < Duration::from_secs(10) {
            let done = world::global().log.lock().unwrap().iter().any(|e| e.body.contains("\"MainDone\""));
            if done {
                clean = true;
                break;
            }
            std::thread::sleep(Duration::from_millis(5));
        }
        if clean {
            main.join();
        }
        world::log(alloc_event());
        world::log(format!("\"ev\":\"End\",\"clean\":{},\"leaked\":[],\"steps\":0", clean));
        let evs = world::global().log.lock().unwrap().clone();
        (evs, clean)
    }

    pub fn main_run(args: &[String]) {
        let scen = arg(args, "--scenarios").expect("--scenarios");
        let outp = arg(args, "--out").expect("--out");
        let runs: u64 = arg(args, "--runs").and_then(|s| s.parse().ok()).unwrap_or(1);
        let quiet: u64 = arg(args, "--quiet-ms").and_then(|s| s.parse().ok()).unwrap_or(250);
        let skip: u64 = arg(args, "--skip").and_then(|s| s.parse().ok()).unwrap_or(0);
        let f = std::io::BufReader::new(std::fs::File::open(&scen).expect("open scenarios"));
        let mut out = std::io::BufWriter::new(std::fs::File::create(&outp).expect("create out"));
        let mut total = 0;
        let mut unclean = 0;
        let mut idx = 0u64;
        for line in f.lines() {
            let line = line.unwrap();
            if line.trim().is_empty() {
                continue;
            }
            idx += 1;
            if idx <= skip {
                continue;
            }
            let sc: Scenario = match serde_json::from_str(&line) {
                Ok(s) => s,
                Err(e) => {
                    eprintln!("TOOL-ERROR bad scenario line: {}", e);
                    std::process::exit(2);
                }
            };
            for r in 0..runs {
                let (evs, clean) = run_one(&sc, quiet);
                let x = format!("{}#{}", sc.id, r);
                write_events(&mut out, &x, &evs, 0);
                // a later case may abort the whole process: what is done must be on disk
                out.flush().unwrap();
                total += 1;
                if !clean {
                    unclean += 1;
                }
            }
            if unclean > 50 {
                out.flush().unwrap();
                println!("PARTIAL next_skip={} executions={} unclean={}", idx, total, unclean);
                std::process::exit(3);
            }
        }
        out.flush().unwrap();
        println!("DONE executions={} unclean={}", total, unclean);
    }
}

fn main() {
    let args: Vec<String> = std::env::args().collect();
    // planned panics and library panics are data, not noise
    std::panic::set_hook(Box::new(|info| {
        if std::env::var_os("VERIF_SHOW_PANICS").is_some() {
            eprintln!("[panic] {}", info);
        }
        // a panic is data: which thread, and was it executing library code?
        let th = std::thread::current();
        let name = th.name().unwrap_or("").to_string();
        let harness_thread = ["main", "app:", "h:", "cw:", "cr:"].iter().any(|p| name.starts_with(p));
        let inlib = !harness_thread || run::in_lib();
        let msg = format!("{}", info);
        let planned = msg.contains("planned handler panic");
        world::log(format!(
            "\"ev\":\"Panic\",\"inlib\":{},\"planned\":{},\"thname\":{},\"msg\":{}",
            inlib && !planned,
            planned,
            run::js(&name),
            run::js(&msg.chars().take(160).collect::<String>())
        ));
    }));
    match args.get(1).map(|s| s.as_str()) {
        Some("run") => ctl::main_run(&args),
        Some("fn") => fncases::main_fn(&args),
        #[cfg(tiny_http_verif)]
        Some("walk") => walk::main_walk(&args),
        _ => {
            eprintln!("usage: {} run|fn ...", args[0]);
            std::process::exit(2);
        }
    }
}
