------------------------------ MODULE AbsConn ------------------------------
(***************************************************************************)
(* Judge specification for one server and its connections, written only in *)
(* terms of what is observable at the public API and at the client's end.  *)
(* It is a MONITOR: CStep never blocks; every guard that fails is recorded *)
(* as a violation [p |-> property, g |-> guard].  Properties decided here: *)
(* C01 C03 C04 C06 C09 C10 C11 C12 C13(same judge for every segmentation)  *)
(* C15 C16 C18, and the delivery side of C02/C07.                          *)
(*                                                                         *)
(* A scenario description `sc` (the "j" field of the Scenario event) gives *)
(* for every connection the messages of its byte stream:                   *)
(*   (per connection: noread = the client never reads, so no frame can be  *)
(*   observed on it)                                                       *)
(*   hs, he, be : offsets of start, end of head, end of designated body    *)
(*   cls  : "ok" | "r400" | "r417" | "r505" | "close"   (reference         *)
(*          classification, fn/HeadSyntax)                                 *)
(*   why  : property that owns a rejection ("C10" or "C16")                *)
(*   last : the message ends the connection (C12)                          *)
(*   bk   : "none" | "small" | "large" | "chunked" | "upgrade"             *)
(*   blen : designated body length;  exp : Expect: 100-continue            *)
(*   how  : respond | writer | upgrade | drop | panic | keep               *)
(*   noframe : the plan writes no byte at all (raw writer dropped unused)   *)
(*   st, rlen, nobody, wflush : planned status, response body length,      *)
(*          "no body octets may be sent", raw writer flushed at the end    *)
(* Indices c, m in events are 0-based; TLA+ sequences are 1-based.         *)
(***************************************************************************)
EXTENDS Integers, Sequences, FiniteSets, TLC

V(ok, p, g) == IF ok THEN <<>> ELSE <<[p |-> p, g |-> g]>>

NC(sc) == Len(sc.conns)
NM(sc, c) == Len(sc.conns[c + 1].msgs)
M(sc, c, m) == sc.conns[c + 1].msgs[m + 1]

MinOf(S) == CHOOSE x \in S : \A y \in S : x <= y
MaxOf(S) == CHOOSE x \in S : \A y \in S : x >= y

IsStop(x) == (x.cls \notin {"ok", "r505"}) \/ (x.cls = "ok" /\ x.last)

\* index of the message at which parsing of connection c stops (NM if none)
StopIdx(sc, c) ==
    LET S == {m \in 0..(NM(sc, c) - 1) : IsStop(M(sc, c, m))}
    IN  IF S = {} THEN NM(sc, c) ELSE MinOf(S)

LastIdx(sc, c) == IF StopIdx(sc, c) < NM(sc, c) THEN StopIdx(sc, c) ELSE NM(sc, c) - 1

\* messages (0-based) that produce a final frame, in wire order
RECURSIVE SlotsFrom(_, _, _)
SlotsFrom(sc, c, m) ==
    IF m > LastIdx(sc, c) THEN <<>>
    ELSE (IF M(sc, c, m).cls = "close" \/ M(sc, c, m).noframe THEN <<>> ELSE <<m>>) \o SlotsFrom(sc, c, m + 1)
Slots(s, c) == s.slots[c + 1]

CInit(sc) ==
    [ sent   |-> [c \in 1..NC(sc) |-> 0],
      fault  |-> [c \in 1..NC(sc) |-> "none"],
      deliv  |-> [c \in 1..NC(sc) |-> {}],
      asked  |-> [c \in 1..NC(sc) |-> [m \in 1..Len(sc.conns[c].msgs) |-> 0]],
      rtot   |-> [c \in 1..NC(sc) |-> [m \in 1..Len(sc.conns[c].msgs) |-> 0]],
      reof   |-> [c \in 1..NC(sc) |-> [m \in 1..Len(sc.conns[c].msgs) |-> FALSE]],
      rbusy  |-> [c \in 1..NC(sc) |-> [m \in 1..Len(sc.conns[c].msgs) |-> FALSE]],
      ans    |-> [c \in 1..NC(sc) |-> [m \in 1..Len(sc.conns[c].msgs) |-> "none"]],
      icnt   |-> [c \in 1..NC(sc) |-> [m \in 1..Len(sc.conns[c].msgs) |-> 0]],
      fcount |-> [c \in 1..NC(sc) |-> 0],
      ceof   |-> [c \in 1..NC(sc) |-> FALSE],
      junk   |-> [c \in 1..NC(sc) |-> FALSE],
      fbad   |-> [c \in 1..NC(sc) |-> FALSE],
      local  |-> [c \in 1..NC(sc) |-> ""],
      pend   |-> [c \in 1..NC(sc) |-> {}],        \* slots skipped by a later frame whose handler had
                                                \* finished: lost, or merely late? (decided later)
      lastSend |-> 0,                           \* instant of the latest client write
      avail  |-> [c \in 1..NC(sc) |-> [m \in 1..Len(sc.conns[c].msgs) |-> -1]],   \* instant at which the client
                                                \* had sent the last byte of message m's head
      slots  |-> [c \in 1..NC(sc) |-> SlotsFrom(sc, c - 1, 0)] ]   \* computed once per scenario    \* the client's own socket address (C02)   \* a frame-order violation was already reported
                                                   \* on c: later frame guards would be echoes

ExpStatus(x) ==
    CASE x.cls = "r400" -> 400
      [] x.cls = "r417" -> 417
      [] x.cls = "r505" -> 505
      [] x.cls = "ok" /\ x.how \in {"respond", "writer"} -> x.st
      [] x.cls = "ok" /\ x.how = "upgrade" -> 101
      [] OTHER -> 500

\* message e no longer holds back the parsing of its successor
Passed(s, sc, c, e) ==
    LET x == M(sc, c, e) IN
      \/ x.cls = "r505"
      \/ /\ x.cls = "ok" /\ ~x.last
         /\ \/ x.bk \in {"none", "small"}
            \/ /\ x.bk \in {"large", "chunked"}
               /\ s.sent[c + 1] >= x.be
               /\ (s.reof[c + 1][e + 1] \/ s.ans[c + 1][e + 1] = "ended")

AllPassedBefore(s, sc, c, m) == \A e \in 0..(m - 1) : Passed(s, sc, c, e)

\* the head of m (and its body if it is of the buffered kind) has been sent completely
Complete(s, sc, c, m) ==
    LET x == M(sc, c, m) IN
      /\ s.sent[c + 1] >= x.he
      /\ (x.bk = "small" => s.sent[c + 1] >= x.be)

\* C11 / C15 / C18: m must be available to the application by now
Deliverable(s, sc, c, m) ==
    /\ m <= LastIdx(sc, c)
    /\ M(sc, c, m).cls = "ok"
    /\ AllPassedBefore(s, sc, c, m)
    /\ Complete(s, sc, c, m)

\* a rejected message has been reached by the parser
Reached(s, sc, c, m) == AllPassedBefore(s, sc, c, m) /\ s.sent[c + 1] >= M(sc, c, m).he

SlotDone(s, sc, c, m) ==
    IF M(sc, c, m).cls = "ok" THEN s.ans[c + 1][m + 1] = "ended" ELSE Reached(s, sc, c, m)

\* does finishing this slot push the shared write buffer out to the client?
\* (a respond() whose own body reader fails returns early, before its flush: like un-flushed raw-writer
\* bytes, what it wrote is owed only once something later flushes or the connection ends)
SlotFlushes(x) == x.cls # "ok" \/ (x.how = "respond" /\ ~x.rfail) \/ x.how \in {"drop", "panic", "upgrade"} \/ (x.how = "writer" /\ x.wflush)

\* the slot's response has been written as far as that depends on the server alone: the handler has finished, or
\* it has started a finish that writes its response before anything that can wait for the client (respond, drop
\* and panic write -- once it is their turn -- and only then discard what is left of the request body)
SlotWrote(s, sc, c, m) ==
    \/ SlotDone(s, sc, c, m)
    \/ /\ M(sc, c, m).cls = "ok" /\ s.ans[c + 1][m + 1] = "started"
       /\ M(sc, c, m).how \in {"respond", "drop", "panic"} /\ ~M(sc, c, m).rfail

\* number of leading slots whose responses have been written
RECURSIVE DonePrefix(_, _, _, _)
DonePrefix(s, sc, c, i) ==
    IF i > Len(Slots(s, c)) THEN i - 1
    ELSE IF SlotWrote(s, sc, c, Slots(s, c)[i]) THEN DonePrefix(s, sc, c, i + 1) ELSE i - 1

\* the connection has nothing more to parse
Stopped(s, sc, c) ==
    /\ StopIdx(sc, c) < NM(sc, c)
    /\ LET m == StopIdx(sc, c) x == M(sc, c, m) IN
         IF x.cls = "ok" THEN m \in s.deliv[c + 1] ELSE Reached(s, sc, c, m)

\* frames that must have reached the client by now (C06 "no hold-up", C01, C10 "never hang")
FramesOwed(s, sc, c) ==
    LET dp == DonePrefix(s, sc, c, 1)
        sl == Slots(s, c)
        closing == /\ dp = Len(sl) /\ (Stopped(s, sc, c) \/ s.fault[c + 1] = "half")
        F == {i \in 1..dp : SlotFlushes(M(sc, c, sl[i]))}
    IN  IF closing THEN dp ELSE IF F = {} THEN 0 ELSE MaxOf(F)

\* every declared body byte of the delivered requests has been sent (or the client closed)
BodiesSent(s, sc, c) ==
    \/ s.fault[c + 1] # "none"
    \/ \A m \in s.deliv[c + 1] : s.sent[c + 1] >= M(sc, c, m).be

Fam(sc) == sc.prop

\* Families whose scenarios vary the client's INPUT under fixed, simple handler programs: whatever
\* goes wrong there (a valid request rejected, a follower lost, a wrong close) is owned by the
\* family's property.  In the schedule families (C01 C06 C07 C08 C11 C17 C20) guards keep their
\* natural owner.
InputFamilies == {"C02", "C03", "C09", "C10", "C12", "C13", "C15", "C16", "C18"}
Own(sc, default) == IF Fam(sc) \in InputFamilies THEN Fam(sc) ELSE default

\* -------------------------------------------------------------------------
\* events

CSend(s, sc, e) ==
    [s |-> [s EXCEPT !.sent[e.c + 1] = IF e.to > @ THEN e.to ELSE @, !.lastSend = e.now,
                     !.avail[e.c + 1] = [m \in DOMAIN @ |-> IF @[m] < 0 /\ sc.conns[e.c + 1].msgs[m].he <= e.to THEN e.now ELSE @[m]]],
     v |-> <<>>]

\* message m of c and everything in front of it on the connection is an acceptable request without a body:
\* the connection thread queues it at the very instant its head is complete
PlainUpTo(sc, c, m) == \A k \in 0..m : M(sc, c, k).cls = "ok" /\ M(sc, c, k).bk = "none" /\ ~M(sc, c, k).exp

\* some complete request is still waiting to be handed to the application
SomethingQueued(s, sc) ==
    \E c \in 0..(NC(sc) - 1) : /\ s.fault[c + 1] \in {"none", "half"}
                                /\ \E m \in 0..(NM(sc, c) - 1) : Deliverable(s, sc, c, m) /\ m \notin s.deliv[c + 1]

\* how many
QueuedCount(s, sc) ==
    Cardinality({cm \in UNION {{<<c, m>> : m \in 0..(NM(sc, c) - 1)} : c \in 0..(NC(sc) - 1)} :
                    /\ s.fault[cm[1] + 1] \in {"none", "half"}
                    /\ Deliverable(s, sc, cm[1], cm[2]) /\ cm[2] \notin s.deliv[cm[1] + 1]})

CFault(s, sc, e, f) == [s |-> [s EXCEPT !.fault[e.c + 1] = f], v |-> <<>>]

\* a receive call returned request (c, m)
Deliver(s, sc, e) ==
    IF e.c < 0
    THEN \* something that is not in the ledger was handed to the application
         [s |-> s, v |-> V(FALSE, Fam(sc), "DeliveredNotSent")]
    ELSE
      LET c == e.c  m == e.m  x == M(sc, c, m) IN
      [ s |-> [s EXCEPT !.deliv[c + 1] = @ \cup {m}],
        v |-> V(x.cls = "ok", (IF x.cls = "ok" THEN "C10" ELSE x.why), "RejectedClassDelivered")
              \o V(m <= LastIdx(sc, c),
                   (IF StopIdx(sc, c) < NM(sc, c) /\ M(sc, c, StopIdx(sc, c)).cls = "ok" THEN "C12"
                    ELSE IF StopIdx(sc, c) < NM(sc, c) THEN M(sc, c, StopIdx(sc, c)).why ELSE "C12"),
                   "DeliveredAfterStop")
              \o V(Complete(s, sc, c, m), "C15", "IncompleteDelivered")
              \o V(e.headok, Own(sc, "C02"), "HeadMismatch")
              \o V(m \notin s.deliv[c + 1], "C07", "DeliveredTwice")
              \* C02: the peer address is the client's socket address on TCP, absent otherwise
              \o V(IF sc.transport = "tcp" THEN e.peer = s.local[c + 1] ELSE e.peer = "", "C02", "PeerAddress") ]

Ask(s, sc, e) == [s |-> [s EXCEPT !.asked[e.c + 1][e.m + 1] = @ + 1], v |-> <<>>]

ReadCall(s, sc, e) == [s |-> [s EXCEPT !.rbusy[e.c + 1][e.m + 1] = TRUE], v |-> <<>>]

ReadRet(s, sc, e) ==
    LET c == e.c  m == e.m  x == M(sc, c, m)
        gone == s.fault[c + 1] \in {"close", "reset", "half"}
        eof == e.got = 0 /\ e.want > 0 /\ e.err = ""
    IN
    [ s |-> [s EXCEPT !.rbusy[c + 1][m + 1] = FALSE,
                      !.rtot[c + 1][m + 1] = e.tot,
                      !.reof[c + 1][m + 1] = @ \/ eof],
      v |-> V(e.ok /\ e.tot <= x.blen, (IF Fam(sc) \in {"C09", "C13", "C18"} THEN Fam(sc) ELSE "C03"), "BodyBytesDiffer")
            \o V(eof => (e.tot = x.blen \/ gone), (IF Fam(sc) \in {"C09", "C13", "C18"} THEN Fam(sc) ELSE "C03"), "EofNotAtBoundary")
            \o V(e.err = "" \/ gone, (IF Fam(sc) \in {"C13", "C18"} THEN Fam(sc) ELSE "C03"), "BodyReadError") ]

AnsStart(s, sc, e) == [s |-> [s EXCEPT !.ans[e.c + 1][e.m + 1] = "started"], v |-> <<>>]

AnsEnd(s, sc, e) ==
    [ s |-> [s EXCEPT !.ans[e.c + 1][e.m + 1] = "ended"],
      \* the only answer that may fail is the one whose own body reader was planned to fail; that one must
      \* report it
      v |-> V(e.ok = ~M(sc, e.c, e.m).rfail, (IF s.fault[e.c + 1] # "none" THEN "C15" ELSE "C06"), "AnswerFailed") ]

\* a response frame parsed by the client
CFrame(s, sc, e) ==
    LET c == e.c
        sl == Slots(s, c)
        i == s.fcount[c + 1] + 1
    IN
    IF s.fbad[c + 1] THEN [s |-> [s EXCEPT !.fcount[c + 1] = IF e.interim THEN @ ELSE i], v |-> <<>>]
    ELSE IF e.interim
    THEN \* 100 Continue: belongs to the request whose final frame comes next
         IF i > Len(sl) THEN [s |-> s, v |-> V(FALSE, Own(sc, "C18"), "InterimWithoutRequest")]
         ELSE LET mm == sl[i]  x == M(sc, c, mm) IN
              [ s |-> [s EXCEPT !.icnt[c + 1][mm + 1] = @ + 1],
                v |-> V(x.cls = "ok" /\ x.exp, Own(sc, "C18"), "InterimNotExpected")
                      \o V(s.asked[c + 1][mm + 1] >= 1, Own(sc, "C18"), "InterimBeforeBodyAsked")
                      \o V(s.icnt[c + 1][mm + 1] = 0, Own(sc, "C18"), "InterimTwice")
                      \o V(e.st = 100 /\ e.wf, Own(sc, "C18"), "InterimMalformed") ]
    ELSE
      IF i > Len(sl) /\ s.pend[c + 1] = {}
      THEN [ s |-> [s EXCEPT !.fcount[c + 1] = i, !.fbad[c + 1] = TRUE],
             v |-> V(FALSE, (IF Fam(sc) \in {"C10", "C16", "C12", "C09"} THEN Fam(sc) ELSE "C06"), "ExtraFrame") ]
      ELSE
        LET \* slot the frame really belongs to: by its X-Id marker, or (library-generated frames
            \* carry none) the first slot from i on that expects an unmarked frame of this status
            IsMarked(k) == M(sc, c, sl[k]).cls = "ok" /\ M(sc, c, sl[k]).how \in {"respond", "writer", "upgrade"}
            latepend == {k \in s.pend[c + 1] : (~IsMarked(k)) /\ ExpStatus(M(sc, c, sl[k])) = e.st}
            cand == IF e.oc >= 0
                    THEN {k \in 1..Len(sl) : e.oc = c /\ sl[k] = e.om /\ IsMarked(k)}
                    ELSE IF latepend # {} THEN latepend
                    ELSE IF i > Len(sl) THEN {}
                    ELSE IF ~IsMarked(i) THEN {i}
                    ELSE {k \in (i + 1)..Len(sl) : (~IsMarked(k)) /\ ExpStatus(M(sc, c, sl[k])) = e.st}
            j == IF cand = {} THEN 0 ELSE MinOf(cand)
            ordp == IF Fam(sc) = "C10" THEN "C10" ELSE "C01"
            \* (a malformed frame where the library's own response to a dropped request is due is C06's: "exactly one
            \*  final response"; elsewhere in the writer-chain families it is interleaving, C01's)
            wfp == IF Fam(sc) = "C06" /\ i <= Len(sl) /\ ~IsMarked(i) THEN "C06"
                   ELSE IF Fam(sc) \in {"C01", "C06"} THEN "C01" ELSE IF Fam(sc) \in {"C13", "C15"} THEN Fam(sc) ELSE "C04"
        IN
        IF ~e.wf
        THEN [ s |-> [s EXCEPT !.fcount[c + 1] = i, !.fbad[c + 1] = TRUE], v |-> V(FALSE, wfp, "FrameMalformed") ]
        ELSE IF j = 0
        THEN \* no slot for it: a marked frame of a foreign / unknown owner, or an unmarked frame where
             \* the application's own response was expected
             [ s |-> [s EXCEPT !.fcount[c + 1] = i, !.fbad[c + 1] = TRUE],
               v |-> IF e.oc >= 0 THEN V(FALSE, ordp, "FrameOutOfOrder")
                     ELSE IF i > Len(sl) THEN V(FALSE, Own(sc, "C06"), "ExtraFrame")
                     ELSE V(FALSE, (IF M(sc, c, sl[i]).cls = "ok" THEN Own(sc, "C06") ELSE M(sc, c, sl[i]).why), "FrameStatus") ]
        ELSE IF j < i /\ j \in s.pend[c + 1]
        THEN \* the response of a slot that a later frame had skipped arrives after all: not lost, but late
             [ s |-> [s EXCEPT !.pend[c + 1] = @ \ {j}], v |-> V(FALSE, ordp, "FrameOutOfOrder") ]
        ELSE IF j < i
        THEN \* a second final response for a slot that already has one
             [ s |-> [s EXCEPT !.fbad[c + 1] = TRUE], v |-> V(FALSE, Own(sc, "C06"), "ExtraFrame") ]
        ELSE
        LET mm == sl[j]  x == M(sc, c, mm)
            isok == x.cls = "ok"
            rejp == IF isok THEN Own(sc, "C06") ELSE x.why
            explen == IF isok /\ x.how \in {"respond", "writer"} /\ ~x.nobody THEN x.rlen ELSE -1
            \* slots i..j-1 were skipped.  An unfinished one was overtaken (C01, certain).  A finished one
            \* either lost its response (C06) or its response is merely late (C01): that is decided when
            \* its frame arrives after all, or at the next Quiescent / end of stream (`pend`).
            skipped == i..(j - 1)
            lost == {k \in skipped : SlotDone(s, sc, c, sl[k])}
            overtaken == skipped \ lost
        IN
        [ s |-> [s EXCEPT !.fcount[c + 1] = j,
                          !.pend[c + 1] = @ \cup lost,
                          \* a body that is not the owner's is the trace of foreign bytes: what the
                          \* client parses after it on this connection proves nothing any more
                          !.fbad[c + 1] = (~e.bm) \/ (explen >= 0 /\ e.blen # explen) \/ overtaken # {}],
          v |-> V(overtaken = {}, ordp, "FrameOutOfOrder")
                \o V(e.st = ExpStatus(x), rejp, "FrameStatus")
                \o V(isok => s.ans[c + 1][mm + 1] # "none", "C06", "FrameBeforeAnswer")
                \o V(isok => mm \in s.deliv[c + 1], "C06", "FrameForUndelivered")
                \o V(e.bm, wfp, "FrameBodyDiffers")
                \o V(explen >= 0 => e.blen = explen, wfp, "FrameBodyLength")
                \o V((isok /\ x.nobody) => e.wire = 0, "C04", "BodyOctetsOnNoBodyResponse")
                \o V((isok /\ x.exp /\ s.asked[c + 1][mm + 1] >= 1) => s.icnt[c + 1][mm + 1] = 1, Own(sc, "C18"), "InterimMissing") ]

\* slots still pending when nothing more can arrive: their responses are lost
LostNow(s, sc, c) ==
    LET sl == Slots(s, c)  P == s.pend[c + 1] IN
    IF P = {} \/ s.fbad[c + 1] THEN <<>>      \* (after foreign bytes nothing can be concluded)
    ELSE V(FALSE, (IF \E k \in P : M(sc, c, sl[k]).cls # "ok" THEN M(sc, c, sl[CHOOSE k \in P : M(sc, c, sl[k]).cls # "ok"]).why ELSE Own(sc, "C06")), "ResponseMissing")

\* which property owns an unexpected end of stream
EofOwner(s, sc, c) ==
    IF StopIdx(sc, c) < NM(sc, c) /\ M(sc, c, StopIdx(sc, c)).cls # "ok" THEN M(sc, c, StopIdx(sc, c)).why
    ELSE IF Fam(sc) \in {"C06", "C20"} THEN Fam(sc) ELSE Own(sc, "C12")

CEof(s, sc, e) ==
    LET c == e.c
        sl == Slots(s, c)
        gone == s.fault[c + 1] \in {"close", "reset"}
        \* every delivered request already has its frame
        pending == {mm \in s.deliv[c + 1] : \E i \in 1..Len(sl) : sl[i] = mm /\ i > s.fcount[c + 1]}
    IN
    [ s |-> [s EXCEPT !.ceof[c + 1] = TRUE, !.pend[c + 1] = {}],
      v |-> IF gone \/ s.fbad[c + 1] THEN LostNow(s, sc, c)
            ELSE LostNow(s, sc, c)
                 \o V(Stopped(s, sc, c) \/ s.fault[c + 1] = "half", EofOwner(s, sc, c), "ClosedWhileUsable")
                 \o V(pending = {}, EofOwner(s, sc, c), "ClosedBeforeAnswering") ]

CJunk(s, sc, e) ==
    [ s |-> [s EXCEPT !.junk[e.c + 1] = TRUE],
      v |-> V(s.fault[e.c + 1] \in {"close", "reset"} \/ s.fbad[e.c + 1],
              (IF Fam(sc) \in {"C01", "C06"} THEN "C01" ELSE IF Fam(sc) \in {"C13", "C15", "C10", "C16"} THEN Fam(sc) ELSE "C04"), "UnparsableBytes") ]

\* "nothing is owed": rb = some receiver is blocked in (or about to make) a receive call
Quiescent(s, sc, e, rb, dropped) ==
    LET ph == e.ph
        conns == {c \in 0..(NC(sc) - 1) : s.fault[c + 1] \in {"none", "half"} /\ ~sc.conns[c + 1].noread}
        stallp(c, m) ==
            IF Fam(sc) \in {"C07", "C08", "C11"} THEN Fam(sc)
            ELSE IF Fam(sc) = "C20" THEN "C08" ELSE Own(sc, "C11")
        undeliv(c) == {m \in 0..(NM(sc, c) - 1) : Deliverable(s, sc, c, m) /\ m \notin s.deliv[c + 1]}
        owed(c) == FramesOwed(s, sc, c)
        frp(c) == IF Fam(sc) = "C08" THEN "C08"
                  ELSE IF Fam(sc) = "C20" /\ dropped THEN "C20" ELSE Own(sc, "C06")
        eofowed(c) ==
            /\ s.fault[c + 1] \in {"none", "half"}
            \* every response has reached the client (a handler may still be busy discarding an
            \* unsent request body inside respond(): that must not keep the sending side open)
            /\ s.fcount[c + 1] >= Len(Slots(s, c))
            /\ \/ Stopped(s, sc, c)
               \/ s.fault[c + 1] = "half" /\ \A m \in 0..LastIdx(sc, c) : (M(sc, c, m).cls = "ok" => (m \in s.deliv[c + 1] \/ ~Complete(s, sc, c, m)))
        stuckread(c) == \E m \in 0..(NM(sc, c) - 1) : s.rbusy[c + 1][m + 1]
    IN
    IF e.res \notin {"idle", "settled"} THEN [s |-> s, v |-> V(FALSE, Fam(sc), "ExecutionDidNotSettle")]
    ELSE
    [ s |-> [s EXCEPT !.pend = [c \in 1..NC(sc) |-> {}]],
      v |-> (IF \E c \in 0..(NC(sc) - 1) : s.pend[c + 1] # {}
             THEN LostNow(s, sc, CHOOSE c \in 0..(NC(sc) - 1) : s.pend[c + 1] # {}) ELSE <<>>)
            \o (IF rb /\ ph <= 1
             THEN V(\A c \in conns : undeliv(c) = {}, stallp(0, 0), "RequestNotDelivered")
             ELSE <<>>)
            \o V(\A c \in conns : s.fbad[c + 1] \/ s.fcount[c + 1] >= owed(c), frp(0), "ResponseNotReceived")
            \* C18: the interim response goes out when the application first asks for the body -- not with some later
            \* write: once nothing can run any more, a body that was asked for (and whose turn it is: everything
            \* before it has been written) has had its 100 Continue delivered
            \o V(\A c \in conns : s.fbad[c + 1] \/
                    \A i \in 1..Len(Slots(s, c)) :
                       LET m == Slots(s, c)[i] x == M(sc, c, m) IN
                       (x.cls = "ok" /\ x.exp /\ s.asked[c + 1][m + 1] >= 1 /\ DonePrefix(s, sc, c, 1) >= i - 1)
                          => s.icnt[c + 1][m + 1] >= 1,
                 Own(sc, "C18"), "InterimMissing")
            \o V(\A c \in conns : eofowed(c) => s.ceof[c + 1], (IF Fam(sc) = "C20" THEN "C20" ELSE Own(sc, "C12")), "NotClosedAfterLastResponse")
            \o V(\A c \in 0..(NC(sc) - 1) : (s.fault[c + 1] \in {"close", "reset", "half"} /\ s.sent[c + 1] < 10000000) => ~(stuckread(c) /\ ph >= 1), "C15", "BodyReadBlockedForever") ]

CStep(s, sc, e, rb, dropped) ==
    CASE e.ev = "CSend" -> CSend(s, sc, e)
      [] e.ev = "COpen" /\ e.ok -> [s |-> [s EXCEPT !.local[e.c + 1] = e.local], v |-> <<>>]
      \* a client cannot connect although the server has not been dropped: nobody is accepting any more
      [] e.ev = "COpen" /\ ~e.ok -> [s |-> s, v |-> V(dropped, Own(sc, "C08"), "ConnectRefusedWhileServing")]
      [] e.ev = "CHalf" -> CFault(s, sc, e, "half")
      [] e.ev = "CClose" -> CFault(s, sc, e, "close")
      [] e.ev = "CReset" -> CFault(s, sc, e, "reset")
      [] e.ev = "RecvRet" /\ e.res = "req" -> Deliver(s, sc, e)
      [] e.ev = "Ask" -> Ask(s, sc, e)
      [] e.ev = "ReadCall" -> ReadCall(s, sc, e)
      [] e.ev = "ReadRet" -> ReadRet(s, sc, e)
      [] e.ev = "AnsStart" -> AnsStart(s, sc, e)
      [] e.ev = "AnsEnd" -> AnsEnd(s, sc, e)
      \* C03: after a protocol upgrade the application reads all remaining bytes of the connection verbatim (the harness
      \* reads as many as the client sent after the head)
      [] e.ev = "UpgradeRead" ->
            [s |-> s,
             v |-> V(e.ok /\ (e.got = M(sc, e.c, e.m).blen \/ s.fault[e.c + 1] # "none"), Own(sc, "C03"), "UpgradeBytesDiffer")]
      [] e.ev = "KeptDrop" /\ e.c >= 0 -> [s |-> [s EXCEPT !.ans[e.c + 1][e.m + 1] = "ended"], v |-> <<>>]
      [] e.ev = "CFrame" -> CFrame(s, sc, e)
      [] e.ev = "CEof" -> CEof(s, sc, e)
      [] e.ev = "CErr" -> CEof(s, sc, e)
      [] e.ev = "CJunk" -> CJunk(s, sc, e)
      [] e.ev = "Quiescent" -> Quiescent(s, sc, e, rb, dropped)
      [] OTHER -> [s |-> s, v |-> <<>>]
=============================================================================
