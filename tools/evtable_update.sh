#!/bin/sh
# refresh the measured-coverage table of DESIGN.md from the evidence files
python3 - <<'PY'
import subprocess,re
t=subprocess.check_output(["python3","/verif/tools/evtable.py"]).decode()
p="/verif/DESIGN.md"
s=open(p).read()
s=re.sub(r"<!-- evtable:begin -->.*?<!-- evtable:end -->","<!-- evtable:begin -->\n"+t+"<!-- evtable:end -->",s,flags=re.S)
open(p,"w").write(s)
PY
