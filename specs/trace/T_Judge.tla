------------------------------ MODULE T_Judge ------------------------------
(***************************************************************************)
(* Trace specification: validates recorded executions of the real code     *)
(* (ndjson, any number of executions per file, each starting with a        *)
(* `Scenario` event) against the judge specifications.  One TLC state per  *)
(* line; the judges are monitors, so the whole trace is always examined    *)
(* and every failed guard is printed as                                    *)
(*     <<"VIOL", execution, line, property, guard>>                        *)
(* Acceptance = all lines consumed (POSTCONDITION) and no VIOL line.       *)
(***************************************************************************)
EXTENDS Integers, Sequences, FiniteSets, TLC, Json, IOUtils

Rec == ndJsonDeserialize(IOEnv.TRACE)

C == INSTANCE AbsConn
Q == INSTANCE AbsQueue
P == INSTANCE AbsPool
R == INSTANCE AbsRes

VARIABLES l, sc, st, nviol
vars == <<l, sc, st, nviol>>

NoScenario == [prop |-> "", drv |-> "", napps |-> 0, single |-> FALSE, conns |-> <<>>, reclaim |-> <<>>, transport |-> "mem",
               resonly |-> FALSE]

Init == l = 1 /\ sc = NoScenario /\ st = [c |-> C!CInit(NoScenario), q |-> Q!QInit(NoScenario), p |-> P!PInit(NoScenario)] /\ nviol = 0

Report(e, vs) == \A i \in 1..Len(vs) : PrintT(<<"VIOL", e.x, l, vs[i].p, vs[i].g>>)

Next ==
    /\ l <= Len(Rec)
    /\ l' = l + 1
    /\ LET e == Rec[l] IN
       IF e.ev = "Scenario"
       THEN LET nsc == [prop |-> e.prop, drv |-> e.drv, napps |-> e.j.napps, single |-> e.j.single,
                        conns |-> e.j.conns, reclaim |-> e.j.reclaim, transport |-> e.j.transport,
                        \* resonly: the scenario's messages are deliberately not described (adversarial
                        \* byte soup); only the resource judge (AbsRes) applies
                        resonly |-> e.j.resonly] IN
            /\ sc' = nsc
            /\ st' = [c |-> C!CInit(nsc), q |-> Q!QInit(nsc), p |-> P!PInit(nsc)]
            /\ nviol' = nviol
       ELSE LET rb == Q!AnyBlocked(st.q)
                rc == C!CStep(st.c, sc, e, rb, st.p.dropped)
                rq == Q!QStep(st.q, sc, e)
                rp == P!PStep(st.p, sc, e, st.c)
                \* C07 (virtual time only): a receive call that STARTED at an instant after the last
                \* client write -- the server has been idle in between -- returns empty-handed although a
                \* complete request is queued and no unblock token can account for it
                xq == IF /\ e.ev = "RecvRet" /\ e.res = "none" /\ sc.drv = "d1"
                         /\ st.q.call[e.t + 1].start > st.c.lastSend
                         /\ st.q.unb - st.q.empt <= 0
                         \* (a request taken by another call that has not returned yet still counts as queued here:
                         \*  every other receive call in progress may be holding one)
                         /\ C!QueuedCount(st.c, sc) > Cardinality(Q!Blocked(st.q) \ {e.t + 1})
                      THEN <<[p |-> "C07", g |-> "QueuedRequestNotReturned"]>> ELSE <<>>
                \* C07 (virtual time only, queue families): "no request stays queued while a receiver remains
                \* blocked" -- the clock only moves when every thread is blocked, so when a request is handed over,
                \* no receive call that can block may have been in progress at an earlier instant at which the
                \* request was already queued
                yq == IF /\ e.ev = "RecvRet" /\ e.res = "req" /\ e.c >= 0 /\ sc.drv = "d1" /\ sc.prop \in {"C07", "C17"}
                         /\ C!PlainUpTo(sc, e.c, e.m)
                         /\ st.c.avail[e.c + 1][e.m + 1] >= 0
                         /\ \E t \in Q!Blocked(st.q) :
                               /\ st.q.call[t].kind \in {"recv", "iter", "timeout"}
                               /\ st.q.call[t].start < e.now /\ st.c.avail[e.c + 1][e.m + 1] < e.now
                      THEN <<[p |-> "C07", g |-> "ReceiverBlockedWhileQueued"]>> ELSE <<>>
                vs == IF sc.resonly THEN R!RStep(e, st.c) ELSE rc.v \o rq.v \o rp.v \o xq \o yq \o R!RStep(e, st.c)
            IN /\ st' = [c |-> rc.s, q |-> rq.s, p |-> rp.s]
               /\ sc' = sc
               /\ Report(e, vs)
               /\ nviol' = nviol + Len(vs)

Spec == Init /\ [][Next]_vars

AllConsumed ==
    /\ PrintT(<<"DONE", Len(Rec), TLCGet("stats").diameter>>)
    /\ TLCGet("stats").diameter = Len(Rec) + 1
=============================================================================
