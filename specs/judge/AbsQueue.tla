------------------------------ MODULE AbsQueue ------------------------------
(***************************************************************************)
(* Judge for the receive calls (C07 order clause, C17).  Monitor style, see *)
(* AbsConn.  Times are in microseconds (virtual on D1, wall clock on D2).   *)
(***************************************************************************)
EXTENDS Integers, Sequences, FiniteSets, TLC

V(ok, p, g) == IF ok THEN <<>> ELSE <<[p |-> p, g |-> g]>>

Eps == 1000                      \* "about its timeout": the 1 ms give-up threshold
Slack(sc) == IF sc.drv = "d2" THEN 250000 ELSE 0     \* scheduling latency on real threads

NoCall == [in |-> FALSE, kind |-> "", ms |-> 0, start |-> 0]

QInit(sc) ==
    [ call  |-> [t \in 1..sc.napps |-> NoCall],
      unb   |-> 0,      \* unblock() calls so far
      rel   |-> 0,      \* receive calls that can only have been released by an unblock
      empt  |-> 0,      \* all receive calls that returned empty-handed (may have consumed a token)
      lastm |-> [c \in 1..Len(sc.conns) |-> -1] ]

Blocked(s) == {t \in DOMAIN s.call : s.call[t].in}
AnyBlocked(s) == Blocked(s) # {}

RecvCall(s, sc, e) ==
    [s |-> [s EXCEPT !.call[e.t + 1] = [in |-> TRUE, kind |-> e.kind, ms |-> e.ms, start |-> e.now]], v |-> <<>>]

RecvRet(s, sc, e) ==
    LET cl == s.call[e.t + 1]
        el == e.now - cl.start
        T == cl.ms * 1000
        s1 == [s EXCEPT !.call[e.t + 1] = NoCall]
    IN
    IF e.res = "req"
    THEN IF e.c < 0 THEN [s |-> s1, v |-> <<>>]
         ELSE [ s |-> [s1 EXCEPT !.lastm[e.c + 1] = IF e.m > @ THEN e.m ELSE @],
                v |-> V(sc.single => e.m > s.lastm[e.c + 1], "C07", "WireOrder") ]
    ELSE
      LET definite == \/ cl.kind \in {"recv", "iter"}
                      \/ cl.kind = "timeout" /\ el + Eps + Slack(sc) < T
          s2 == [s1 EXCEPT !.empt = @ + 1, !.rel = IF definite THEN @ + 1 ELSE @]
      IN
      [ s |-> s2,
        v |-> V(s2.rel <= s2.unb, "C17", "ReleasedWithoutUnblock")
              \o V(cl.kind = "timeout" => el <= 2 * T + Slack(sc), "C17", "TimedReceiveLate")
              \o V((cl.kind = "try" /\ sc.drv = "d1") => el = 0, "C17", "TryRecvWaited") ]

Unblock(s, sc, e) == [s |-> [s EXCEPT !.unb = @ + 1], v |-> <<>>]

Quiescent(s, sc, e) ==
    IF e.res \notin {"idle", "settled"} THEN [s |-> s, v |-> <<>>]
    ELSE
    LET late == {t \in Blocked(s) : s.call[t].kind = "timeout" /\ e.now - s.call[t].start > 2 * s.call[t].ms * 1000 + Slack(sc)}
        trying == {t \in Blocked(s) : s.call[t].kind = "try"}
    IN
    [ s |-> s,
      v |-> V((s.unb - s.empt > 0) => ~AnyBlocked(s), "C17", "UnblockDidNotRelease")
            \o V(late = {}, "C17", "TimedReceiveLate")
            \o V(trying = {}, "C17", "TryRecvWaited") ]

QStep(s, sc, e) ==
    CASE e.ev = "RecvCall" -> RecvCall(s, sc, e)
      [] e.ev = "RecvRet" -> RecvRet(s, sc, e)
      [] e.ev = "Unblock" -> Unblock(s, sc, e)
      [] e.ev = "Quiescent" -> Quiescent(s, sc, e)
      [] OTHER -> [s |-> s, v |-> <<>>]
=============================================================================
