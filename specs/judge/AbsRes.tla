------------------------------- MODULE AbsRes -------------------------------
(***************************************************************************)
(* Judge for C14: no client input aborts the process, panics a thread      *)
(* inside the library, or forces an allocation out of proportion to the    *)
(* bytes actually received.  Monitor style; `cs` is the AbsConn state      *)
(* (bytes sent so far per connection).                                     *)
(***************************************************************************)
EXTENDS Integers, Sequences, FiniteSets, TLC

V(ok, p, g) == IF ok THEN <<>> ELSE <<[p |-> p, g |-> g]>>

RECURSIVE SumSeq(_)
SumSeq(q) == IF q = <<>> THEN 0 ELSE Head(q) + SumSeq(Tail(q))

\* largest single allocation (in KiB) <= 1 MiB + 64 x bytes received
AllocOK(maxk, recv) == maxk <= 1024 + (recv \div 16) + 1

RStep(e, cs) ==
    CASE e.ev = "Panic" -> V(~e.inlib, "C14", "PanicInLibrary")
      [] e.ev = "ThreadDied" -> V(~e.inlib, "C14", "LibraryThreadPanicked")
      [] e.ev = "Abort" -> V(FALSE, "C14", "ProcessAborted")
      [] e.ev = "Alloc" -> V(AllocOK(e.maxk, SumSeq(cs.sent)), "C14", "AllocationExceedsReceived")
      [] OTHER -> <<>>
=============================================================================
