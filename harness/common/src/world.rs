//! The two worlds a scenario can run in: the controllable runtime (D1, `--cfg tiny_http_verif`) and
//! real threads / real sockets (D2). Same API, selected at compile time.

use std::io;

#[derive(Clone, Debug)]
pub struct Event {
    pub i: usize,
    pub th: String,
    pub now: u64,
    pub body: String,
}

#[cfg(tiny_http_verif)]
mod imp {
    use super::*;
    pub use tiny_http_vrt::sync::{Condvar, Mutex};
    use tiny_http_vrt::net::{MemAddr, MemListener, MemStream};

    pub const DRIVER: &str = "d1";

    pub struct Join(tiny_http_vrt::thread::JoinHandle<()>);
    impl Join {
        pub fn join(self) {
            let _ = self.0.join();
        }
    }

    pub fn spawn<F: FnOnce() + Send + 'static>(name: &str, f: F) -> Join {
        Join(tiny_http_vrt::spawn_env(name, f))
    }
    pub fn sleep_ns(ns: u64) {
        tiny_http_vrt::thread::sleep(std::time::Duration::from_nanos(ns));
    }
    pub fn now_ns() -> u64 {
        tiny_http_vrt::now_ns()
    }
    pub fn log(body: String) {
        tiny_http_vrt::log(body);
    }
    pub fn wait_phase(k: u64) {
        tiny_http_vrt::wait_phase(k);
    }
    pub fn thread_name() -> String {
        tiny_http_vrt::thread_name()
    }
    pub fn spurious() {
        tiny_http_vrt::spurious_wake_all();
    }

    #[derive(Clone)]
    pub enum Addr {
        Mem(MemAddr),
    }

    pub fn make_server(transport: &str, _tag: &str) -> (tiny_http::Server, Addr) {
        assert!(transport == "mem", "D1 only knows the in-memory transport");
        let l = MemListener::bind("srv");
        let a = l.local_addr().unwrap();
        (tiny_http::Server::from_listener(l, None).unwrap(), Addr::Mem(a))
    }

    pub struct Cli(MemStream);

    impl Cli {
        pub fn connect(a: &Addr) -> io::Result<Cli> {
            match a {
                Addr::Mem(m) => m.connect().map(Cli),
            }
        }
        pub fn try_clone(&self) -> Cli {
            Cli(self.0.try_clone().unwrap())
        }
        pub fn write_seg(&self, b: &[u8]) -> io::Result<()> {
            let mut off = 0;
            while off < b.len() {
                off += self.0.write(&b[off..])?;
            }
            Ok(())
        }
        pub fn read(&self, b: &mut [u8]) -> io::Result<usize> {
            self.0.read(b)
        }
        pub fn half_close(&self) {
            let _ = self.0.shutdown(std::net::Shutdown::Write);
        }
        pub fn close(&self) {
            self.0.close();
        }
        pub fn reset(&self) {
            self.0.reset();
        }
        pub fn set_window(&self, w: Option<usize>) {
            self.0.set_window(w);
        }
        pub fn server_threads(&self) -> Vec<String> {
            self.0.server_reader_threads()
        }
        /// bytes the server has taken from this connection so far
        pub fn consumed(&self) -> i64 {
            self.0.counters().0 as i64
        }
        pub fn local_addr_string(&self) -> Option<String> {
            None
        }
    }
}

#[cfg(not(tiny_http_verif))]
mod imp {
    use super::*;
    use std::io::{Read, Write};
    use std::net::{Shutdown, SocketAddr, TcpStream};
    use std::os::unix::net::UnixStream;
    use std::path::PathBuf;
    pub use std::sync::{Condvar, Mutex};
    use std::sync::atomic::{AtomicU64, Ordering};
    use std::time::{Duration, Instant};

    pub const DRIVER: &str = "d2";

    pub struct Join(std::thread::JoinHandle<()>);
    impl Join {
        pub fn join(self) {
            let _ = self.0.join();
        }
    }

    thread_local! {
        static NAME: std::cell::RefCell<String> = std::cell::RefCell::new("main".to_string());
    }

    pub struct Global {
        pub log: std::sync::Mutex<Vec<Event>>,
        pub phase: std::sync::Mutex<u64>,
        pub phase_cv: std::sync::Condvar,
        pub start: std::sync::Mutex<Instant>,
        pub last_event_us: AtomicU64,
    }

    pub fn global() -> &'static Global {
        static G: std::sync::OnceLock<Global> = std::sync::OnceLock::new();
        G.get_or_init(|| Global {
            log: std::sync::Mutex::new(Vec::new()),
            phase: std::sync::Mutex::new(0),
            phase_cv: std::sync::Condvar::new(),
            start: std::sync::Mutex::new(Instant::now()),
            last_event_us: AtomicU64::new(0),
        })
    }

    pub fn reset_global() {
        let g = global();
        g.log.lock().unwrap().clear();
        *g.phase.lock().unwrap() = 0;
        *g.start.lock().unwrap() = Instant::now();
        g.last_event_us.store(0, Ordering::SeqCst);
    }

    pub fn set_phase(k: u64) {
        let g = global();
        let mut p = g.phase.lock().unwrap();
        if k > *p {
            *p = k;
        }
        g.phase_cv.notify_all();
    }

    pub fn spawn<F: FnOnce() + Send + 'static>(name: &str, f: F) -> Join {
        let n = name.to_string();
        Join(
            std::thread::Builder::new()
                .name(n.clone())
                .spawn(move || {
                    NAME.with(|x| *x.borrow_mut() = n);
                    f()
                })
                .unwrap(),
        )
    }
    pub fn sleep_ns(ns: u64) {
        std::thread::sleep(Duration::from_nanos(ns));
    }
    pub fn now_ns() -> u64 {
        global().start.lock().unwrap().elapsed().as_nanos() as u64
    }
    pub fn log(body: String) {
        let g = global();
        let now = now_ns();
        let th = thread_name();
        let mut l = g.log.lock().unwrap();
        let i = l.len();
        l.push(Event { i, th, now, body });
        g.last_event_us.store(now / 1000, Ordering::SeqCst);
    }
    pub fn wait_phase(k: u64) {
        let g = global();
        let mut p = g.phase.lock().unwrap();
        while *p < k {
            p = g.phase_cv.wait(p).unwrap();
        }
    }
    pub fn thread_name() -> String {
        NAME.with(|x| x.borrow().clone())
    }
    pub fn spurious() {}

    #[derive(Clone)]
    pub enum Addr {
        Tcp(SocketAddr),
        Unix(PathBuf),
    }

    pub fn make_server(transport: &str, tag: &str) -> (tiny_http::Server, Addr) {
        match transport {
            "unix" => {
                let dir = std::env::var("VERIF_SOCK_DIR").unwrap_or_else(|_| "/verif/work/sock".to_string());
                let _ = std::fs::create_dir_all(&dir);
                let p = PathBuf::from(format!("{}/s{}-{}.sock", dir, std::process::id(), tag));
                let _ = std::fs::remove_file(&p);
                let s = tiny_http::Server::http_unix(&p).unwrap();
                (s, Addr::Unix(p))
            }
            _ => {
                let s = tiny_http::Server::http("127.0.0.1:0").unwrap();
                let a = s.server_addr().to_ip().unwrap();
                (s, Addr::Tcp(a))
            }
        }
    }

    pub enum Cli {
        Tcp(TcpStream),
        Unix(UnixStream),
    }

    extern "C" {
        fn setsockopt(fd: i32, level: i32, name: i32, val: *const core::ffi::c_void, len: u32) -> i32;
        fn connect(fd: i32, addr: *const core::ffi::c_void, len: u32) -> i32;
    }

    #[repr(C)]
    struct Linger {
        l_onoff: i32,
        l_linger: i32,
    }

    impl Cli {
        pub fn connect(a: &Addr) -> io::Result<Cli> {
            match a {
                Addr::Tcp(s) => {
                    let t = TcpStream::connect(s)?;
                    t.set_nodelay(true).ok();
                    Ok(Cli::Tcp(t))
                }
                Addr::Unix(p) => UnixStream::connect(p).map(Cli::Unix),
            }
        }
        pub fn try_clone(&self) -> Cli {
            match self {
                Cli::Tcp(t) => Cli::Tcp(t.try_clone().unwrap()),
                Cli::Unix(t) => Cli::Unix(t.try_clone().unwrap()),
            }
        }
        pub fn write_seg(&self, b: &[u8]) -> io::Result<()> {
            match self {
                Cli::Tcp(t) => (&*t).write_all(b),
                Cli::Unix(t) => (&*t).write_all(b),
            }
        }
        pub fn read(&self, b: &mut [u8]) -> io::Result<usize> {
            match self {
                Cli::Tcp(t) => (&*t).read(b),
                Cli::Unix(t) => (&*t).read(b),
            }
        }
        pub fn half_close(&self) {
            match self {
                Cli::Tcp(t) => t.shutdown(Shutdown::Write).ok(),
                Cli::Unix(t) => t.shutdown(Shutdown::Write).ok(),
            };
        }
        pub fn close(&self) {
            match self {
                Cli::Tcp(t) => t.shutdown(Shutdown::Both).ok(),
                Cli::Unix(t) => t.shutdown(Shutdown::Both).ok(),
            };
        }
        pub fn reset(&self) {
            use std::os::fd::AsRawFd;
            if let Cli::Tcp(t) = self {
                let l = Linger { l_onoff: 1, l_linger: 0 };
                // SOL_SOCKET = 1, SO_LINGER = 13 on Linux
                unsafe {
                    setsockopt(t.as_raw_fd(), 1, 13, &l as *const Linger as *const core::ffi::c_void, 8);
                    // connect(AF_UNSPEC) disconnects an established TCP socket at once with a RST (the descriptor
                    // stays valid for the other threads that hold it); shutdown alone would send a FIN first
                    let unspec = [0u8; 16];
                    connect(t.as_raw_fd(), unspec.as_ptr() as *const core::ffi::c_void, 16);
                }
            }
            self.close();
        }
        pub fn set_window(&self, _w: Option<usize>) {}
        pub fn server_threads(&self) -> Vec<String> {
            Vec::new()
        }
        pub fn consumed(&self) -> i64 {
            -1
        }
        pub fn local_addr_string(&self) -> Option<String> {
            match self {
                Cli::Tcp(t) => t.local_addr().ok().map(|a| a.to_string()),
                Cli::Unix(_) => None,
            }
        }
    }
}

pub use imp::*;
