SPECIFICATION TSpec
CONSTANTS
  N = 12
  Plans = {}
  ConnErr = FALSE
  DevWriterDropSkipsTurn = FALSE
  DevFlushReleases = FALSE
  Dev505OnNextWriter = FALSE
INVARIANT OrderInv
POSTCONDITION Accepted
CHECK_DEADLOCK FALSE
