SPECIFICATION TSpec
CONSTANTS
  N = 70
  MinThreads = 4
  MaxW = 90
  CanFinish = TRUE
  CanDrop = TRUE
  DevPoolCountsWoken = FALSE
POSTCONDITION Accepted
CHECK_DEADLOCK FALSE
