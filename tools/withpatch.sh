#!/bin/sh
# usage: withpatch.sh <patch> <command...> : apply a patch to /repo, run the command in /verif, undo
patch="$1"; shift
cd /repo || exit 2
[ -z "$(git status --porcelain)" ] || { echo "repo not clean"; exit 2; }
git apply "$patch" || { echo "patch does not apply"; exit 2; }
cd /verif; "$@"; rc=$?
git -C /repo checkout -- .
exit $rc
