\* the same without a socket path
SPECIFICATION Spec
CONSTANTS
  Clients = {c1, c2, c3}
  Unix = FALSE
  FlagAfterWake = FALSE
  NoWake = FALSE
  UnwrapOnAccept = FALSE
  CheckEverySecond = FALSE
INVARIANTS TypeOK ServingWhileAlive NoRefusalWhileAlive NeverParkedAfterDrop BoundedLateAccepts PathRemoved
PROPERTIES StopsListening
CHECK_DEADLOCK FALSE
