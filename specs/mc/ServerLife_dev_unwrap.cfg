\* deviation (seeded C15-13): peer_addr() unwrapped on the accept thread -- a client that vanishes in the accept queue stops the accepting
SPECIFICATION Spec
CONSTANTS
  Clients = {c1, c2, c3}
  Unix = TRUE
  FlagAfterWake = FALSE
  NoWake = FALSE
  UnwrapOnAccept = TRUE
  CheckEverySecond = FALSE
INVARIANTS TypeOK ServingWhileAlive
CHECK_DEADLOCK FALSE
