--------------------------- MODULE MC_ConnLoop ---------------------------
(***************************************************************************)
(* TLC-only: the pipelines explored by the ConnLoop configurations, and    *)
(* the generation of the reference outcome of every pipeline for the       *)
(* scenario family `connloop` (tools/families.py): one JSON line per       *)
(* pipeline with, per message, whether it is handed over, the status it    *)
(* is answered with, and whether the conversation ends there.              *)
(***************************************************************************)
EXTENDS ConnLoop, Json, IOUtils, SequencesExt

Con(p, c, u, k) == [present |-> p, close |-> c, upgrade |-> u, keepalive |-> k]
ConVals == { Con(FALSE, FALSE, FALSE, FALSE),     \* absent
          Con(TRUE, TRUE, FALSE, FALSE),       \* close
          Con(TRUE, FALSE, FALSE, TRUE),       \* keep-alive
          Con(TRUE, FALSE, TRUE, FALSE),       \* upgrade
          Con(TRUE, FALSE, FALSE, FALSE),      \* other tokens only
          Con(TRUE, TRUE, FALSE, TRUE),        \* a list with keep-alive and close
          Con(TRUE, FALSE, TRUE, TRUE) }       \* a list with keep-alive and upgrade
NoCon == Con(FALSE, FALSE, FALSE, FALSE)
Kinds == [cls : {"ok"}, ver : {"1.0", "1.1"}, con : ConVals]
         \cup [cls : {"r417"}, ver : {"1.0", "1.1"}, con : {NoCon}]
         \cup [cls : {"r400", "r505", "bin"}, ver : {"1.1"}, con : {NoCon}]

SeqsUpTo(n) == UNION {[1..k -> Kinds] : k \in 1..n}
Wires2 == SeqsUpTo(2)
Wires3 == SeqsUpTo(3)

\* generation (configuration ConnLoop_gen): evaluated once, in the initial predicate
OutFile == IOEnv.CL_OUT
GenWires == IF "CL_TIER" \in DOMAIN IOEnv /\ IOEnv.CL_TIER = "thorough" THEN Wires3 ELSE Wires2
Outcome1(w, h) ==
    LET last == StopAtW(w, 1) IN
    [wire |-> w, halfclose |-> h, last |-> last,
     msgs |-> [k \in 1..Len(w) |->
                 [interpreted |-> k <= last,
                  delivered |-> (k <= last /\ w[k].cls = "ok"),
                  status |-> IF k > last \/ w[k].cls = "bin" THEN 0
                             ELSE CASE w[k].cls = "r400" -> 400 [] w[k].cls = "r417" -> 417 [] w[k].cls = "r505" -> 505 [] OTHER -> 200,
                  ends |-> k = last]],
     closes |-> (last <= Len(w) \/ h)]
Gen == ndJsonSerialize(OutFile, SetToSeq({Outcome1(w, h) : w \in GenWires, h \in BOOLEAN}))
GenInit == /\ Gen /\ PrintT(<<"GEN", 2 * Cardinality(GenWires)>>)
           /\ Wire = <<>> /\ HalfClose = FALSE
           /\ pos = 1 /\ nomore = FALSE /\ running = TRUE
           /\ delivered = <<>> /\ answered = {} /\ out = <<>> /\ closed = FALSE
GenSpec == GenInit /\ [][FALSE]_vars
=============================================================================
