------------------------------ MODULE AbsQueue ------------------------------
(***************************************************************************)
(* Judge for the receive calls (C07 order clause, C17).  Monitor style, see *)
(* AbsConn.  Times are in microseconds (virtual on D1, wall clock on D2).   *)
(***************************************************************************)
EXTENDS Integers, Sequences, FiniteSets, TLC

V(ok, p, g) == IF ok THEN <<>> ELSE <<[p |-> p, g |-> g]>>

Eps == 1000                      \* "about its timeout": the 1 ms give-up threshold
Slack(sc) == IF sc.drv = "d2" THEN 250000 ELSE 0     \* scheduling latency on real threads

NoCall == [in |-> FALSE, kind |-> "", ms |-> 0, start |-> 0]

QInit(sc) ==
    [ call  |-> [t \in 1..sc.napps |-> NoCall],
      unb   |-> 0,      \* unblock() calls so far
      rel   |-> 0,      \* receive calls that can only have been released by an unblock
      empt  |-> 0,      \* all receive calls that returned empty-handed (may have consumed a token)
      lastm |-> [c \in 1..Len(sc.conns) |-> -1],
      \* virtual time only (D1): the instants at which anything was recorded, the current instant, and
      \* whether something other than unblock calls and empty-handed returns happened at it
      inst  |-> {}, cur |-> -1, mud |-> FALSE,
      ulate |-> FALSE ]      \* a pending unblock token with a blocked receiver has already been reported

Blocked(s) == {t \in DOMAIN s.call : s.call[t].in}
AnyBlocked(s) == Blocked(s) # {}

RecvCall(s, sc, e) ==
    [s |-> [s EXCEPT !.call[e.t + 1] = [in |-> TRUE, kind |-> e.kind, ms |-> e.ms, start |-> e.now]], v |-> <<>>]

RecvRet(s, sc, e) ==
    LET cl == s.call[e.t + 1]
        el == e.now - cl.start
        T == cl.ms * 1000
        s1 == [s EXCEPT !.call[e.t + 1] = NoCall]
    IN
    IF e.res = "req"
    THEN IF e.c < 0 THEN [s |-> s1, v |-> <<>>]
         ELSE [ s |-> [s1 EXCEPT !.lastm[e.c + 1] = IF e.m > @ THEN e.m ELSE @],
                \* a single receiver gets the requests of a connection in wire order: later than everything it got
                \* before, and without stepping over an acceptable request it has not been given yet
                v |-> V(sc.single => (/\ e.m > s.lastm[e.c + 1]
                                      /\ \A k \in (s.lastm[e.c + 1] + 1)..(e.m - 1) : sc.conns[e.c + 1].msgs[k + 1].cls # "ok"),
                        "C07", "WireOrder") ]
    ELSE
      LET \* A timed call that comes back empty-handed after its time is up has given up -- unless,
          \* on the virtual clock, nothing can have ended its wait at this instant except an unblock:
          \* a wait of the call lasts T from the call or from a wake-up (any recorded instant), so a
          \* give-up that is not T after a recorded instant, at an instant at which nothing but
          \* unblock calls and empty-handed returns happened, was woken by an unblock and has used it up.
          woken == /\ sc.drv = "d1" /\ cl.kind = "timeout" /\ el > 0
                   /\ (e.now - T) \notin s.inst
                   /\ ~(e.now = s.cur /\ s.mud)
          definite == \/ cl.kind \in {"recv", "iter"}
                      \/ cl.kind = "timeout" /\ el + Eps + Slack(sc) < T
                      \/ woken
          s2 == [s1 EXCEPT !.empt = @ + 1, !.rel = IF definite THEN @ + 1 ELSE @]
      IN
      [ s |-> s2,
        v |-> V(s2.rel <= s2.unb, "C17", "ReleasedWithoutUnblock")
              \o V(cl.kind = "timeout" => el <= 2 * T + Slack(sc), "C17", "TimedReceiveLate")
              \o V((cl.kind = "try" /\ sc.drv = "d1") => el = 0, "C17", "TryRecvWaited") ]

Unblock(s, sc, e) == [s |-> [s EXCEPT !.unb = @ + 1], v |-> <<>>]

Quiescent(s, sc, e) ==
    IF e.res \notin {"idle", "settled"} THEN [s |-> s, v |-> <<>>]
    ELSE
    LET late == {t \in Blocked(s) : s.call[t].kind = "timeout" /\ e.now - s.call[t].start > 2 * s.call[t].ms * 1000 + Slack(sc)}
        trying == {t \in Blocked(s) : s.call[t].kind = "try"}
    IN
    [ s |-> s,
      v |-> V((s.unb - s.empt > 0) => ~AnyBlocked(s), "C17", "UnblockDidNotRelease")
            \o V(late = {}, "C17", "TimedReceiveLate")
            \o V(trying = {}, "C17", "TryRecvWaited") ]

Clean(e) == e.ev \in {"Unblock", "AppDone", "Quiescent"} \/ (e.ev = "RecvRet" /\ e.res # "req")

Track(s, e) ==
    IF e.ev = "mark" \/ "now" \notin DOMAIN e THEN s
    ELSE [s EXCEPT !.inst = @ \cup {e.now}, !.cur = e.now,
                   !.mud = (IF e.now = s.cur THEN s.mud ELSE FALSE) \/ ~Clean(e)]

QStep0(s, sc, e) ==
    CASE e.ev = "RecvCall" -> RecvCall(s, sc, e)
      [] e.ev = "RecvRet" -> RecvRet(s, sc, e)
      [] e.ev = "Unblock" -> Unblock(s, sc, e)
      [] e.ev = "Quiescent" -> Quiescent(s, sc, e)
      [] OTHER -> [s |-> s, v |-> <<>>]

\* C17 on the virtual clock: the clock only moves when every thread is blocked, so it never moves while an unblock()
\* that has released nobody yet is pending and some receive call that can block is in progress
Advancing(s, sc, e) == sc.drv = "d1" /\ e.ev # "mark" /\ "now" \in DOMAIN e /\ s.cur >= 0 /\ e.now > s.cur
TokenIgnored(s) == s.unb - s.empt > 0 /\ \E t \in Blocked(s) : s.call[t].kind \in {"recv", "iter", "timeout"}

QStep(s, sc, e) ==
    LET late == Advancing(s, sc, e) /\ TokenIgnored(s) /\ ~s.ulate
        s0 == IF late THEN [s EXCEPT !.ulate = TRUE] ELSE s
        r == QStep0(s0, sc, e)
    IN [s |-> Track(r.s, e), v |-> V(~late, "C17", "UnblockDidNotRelease") \o r.v]
=============================================================================
