\* every pipeline of 1..3 messages over the 17 message kinds (version x Connection class, the rejected classes),
\* with and without the client's half-close; all interleavings of parsing and answering
SPECIFICATION FairSpec
CONSTANTS
  Wires <- Wires3
  DevKeepAliveWins = FALSE
  DevNoExpect10 = FALSE
INVARIANTS TypeOK NeverBeyondStop InWireOrder StatusOK ClosedAfterAll NotClosedWhileUsable
PROPERTIES Outcome
CHECK_DEADLOCK FALSE
