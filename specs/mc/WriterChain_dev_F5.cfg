\* 3 pipelined requests, every assignment of 6 plans, each request on its own thread, plus the
\* connection thread's error response; all interleavings
SPECIFICATION FairSpec
CONSTANTS
  N = 3
  Plans <- QuickPlans
  ConnErr = TRUE
  DevWriterDropSkipsTurn = FALSE
  DevFlushReleases = FALSE
  Dev505OnNextWriter = TRUE
INVARIANTS TypeOK
PROPERTIES EveryoneFinishes
CHECK_DEADLOCK FALSE
