------------------------- MODULE MC_MsgQueueWalk -------------------------
(***************************************************************************)
(* Specification -> implementation direction for the request queue:        *)
(* TLC simulates mech/MsgQueue and writes every behaviour as one JSON line *)
(* (the sequence of actions with their parameters, the notify_one choice   *)
(* and the abstract state after each action).  The driver (d1 walk) steps  *)
(* the real server through exactly these actions under the directed        *)
(* scheduler of vrt and compares the abstract state after every action.    *)
(***************************************************************************)
EXTENDS MsgQueue, Json

VARIABLE hist
wvars == <<vars, hist>>

Woken(old, new) == LET S == {r \in Recv : old[r] = "wait" /\ new[r] = "woken"} IN IF S = {} THEN "" ELSE CHOOSE r \in S : TRUE

Snap == [qlen |-> Len(q'), rs |-> [r \in Recv |-> rs'[r]], nret |-> [r \in Recv |-> Len(ret'[r])],
         last |-> [r \in Recv |-> IF Len(ret'[r]) = 0 THEN 0 ELSE ret'[r][Len(ret'[r])].v], now |-> now']

Log(a, r) == hist' = Append(hist, [a |-> a, r |-> r, w |-> Woken(rs, rs'), s |-> Snap])

WInit == Init /\ hist = <<>>

WNext ==
    \/ Push /\ Log("Push", "")
    \/ Unblock /\ Log("Unblock", "")
    \/ Tick /\ Log("Tick", "")
    \/ \E r \in Recv : \/ Call(r) /\ Log("Call", r)
                       \/ Fire(r) /\ Log("Fire", r)
                       \/ Wake(r) /\ Log("Wake", r)
                       \/ Spurious(r) /\ Log("Spurious", r)

WSpec == WInit /\ [][WNext]_wvars

WalkProgs == {<<"pop">>, <<"timed">>, <<"try", "pop">>, <<"timed", "try">>, <<"try", "timed">>}

\* a behaviour is written when it cannot be extended or has reached the length bound
Done == ~ENABLED WNext \/ Len(hist) >= 40
Emit == Done => PrintT(<<"WALK", ToJson([prog |-> prog, hist |-> hist])>>)
\* stop extending behaviours beyond the bound
Bound == Len(hist) <= 40
=============================================================================
