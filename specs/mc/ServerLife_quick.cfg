\* C20/C15: three clients connecting or vanishing at any moment, accept loop and Server::drop interleaved in every way; UNIX path
SPECIFICATION Spec
CONSTANTS
  Clients = {c1, c2, c3}
  Unix = TRUE
  FlagAfterWake = FALSE
  NoWake = FALSE
  UnwrapOnAccept = FALSE
  CheckEverySecond = FALSE
INVARIANTS TypeOK ServingWhileAlive NoRefusalWhileAlive NeverParkedAfterDrop BoundedLateAccepts PathRemoved
PROPERTIES StopsListening
CHECK_DEADLOCK FALSE
