-------------------------- MODULE MC_WriterChain --------------------------
EXTENDS WriterChain
AllPlans == {PSmall, PDrop, PBig, PChunked, PUnused, PRaw2f, PRaw2n, PRaw1l, PRawf1}
QuickPlans == {PSmall, PBig, PUnused, PRaw2f, PRaw2n, PDrop, PRawf1}
=============================================================================
