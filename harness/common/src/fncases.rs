//! D3: direct-API driver for the function-level properties (C04, C05, C19).
//! Reads abstract cases written by TLC (specs/mc/MC_Fn.tla), concretises them (seeded), runs
//! `Response::raw_print` into a buffer, parses the bytes with the harness's own client parser and
//! writes one observation per case (ndjson) for TLC to judge.

use crate::httpc;
use serde_json::{json, Value};
use std::io::{BufRead, Read, Write};
use tiny_http::{HTTPVersion, Header, Response, StatusCode};

fn arg(args: &[String], name: &str) -> Option<String> {
    args.iter().position(|a| a == name).and_then(|i| args.get(i + 1).cloned())
}

struct Rng(u64);
impl Rng {
    fn next(&mut self) -> u64 {
        let mut x = self.0;
        x ^= x << 13;
        x ^= x >> 7;
        x ^= x << 17;
        self.0 = x;
        x.wrapping_mul(0x2545F4914F6CDD1D)
    }
    fn below(&mut self, n: usize) -> usize {
        (self.next() % n as u64) as usize
    }
}

struct PieceReader {
    data: Vec<u8>,
    pos: usize,
    piece: usize,
}

impl Read for PieceReader {
    fn read(&mut self, buf: &mut [u8]) -> std::io::Result<usize> {
        let left = self.data.len() - self.pos;
        let n = left.min(buf.len()).min(if self.piece == 0 { usize::MAX } else { self.piece });
        buf[..n].copy_from_slice(&self.data[self.pos..self.pos + n]);
        self.pos += n;
        Ok(n)
    }
}

fn body(n: usize) -> Vec<u8> {
    (0..n).map(|i| b"tiny-http-verif|"[i % 16]).collect()
}

fn mixcase(s: &str, mode: usize) -> String {
    match mode {
        0 => s.to_string(),
        1 => s.to_ascii_uppercase(),
        _ => s
            .chars()
            .enumerate()
            .map(|(i, c)| if i % 2 == 0 { c.to_ascii_uppercase() } else { c })
            .collect(),
    }
}

fn te_header(te: &Value, rng: &mut Rng) -> Option<String> {
    let arr = te.as_array()?;
    if arr.is_empty() {
        return None;
    }
    let mut parts = Vec::new();
    for e in arr {
        let c = e["c"].as_str().unwrap_or("");
        let name = match c {
            "other" => ["gzip", "deflate", "compress"][rng.below(3)].to_string(),
            x => x.to_string(),
        };
        let name = mixcase(&name, rng.below(3));
        let q = match e["q"].as_str().unwrap_or("absent") {
            "absent" => "".to_string(),
            "1" => [";q=1", "; q=1.0", ";q=1.000"][rng.below(3)].to_string(),
            "0.5" => [";q=0.5", "; q=0.5", ";q=0.50"][rng.below(3)].to_string(),
            "0.001" => ";q=0.001".to_string(),
            "0.0005" => [";q=0.0005", "; q=0.00050"][rng.below(2)].to_string(),
            "0.5009" => ";q=0.5009".to_string(),
            "0" => [";q=0", ";q=0.0", "; q=0.000"][rng.below(3)].to_string(),
            // (a weight is 0 .. 1 with at most three decimals: what parses as a float but is no such number is malformed too)
            _ => [";q=abc", ";q=", ";q=1..0", ";q=inf", ";q=-inf", ";q=NaN", ";q=1e999", ";q=Infinity"][rng.below(8)].to_string(),
        };
        parts.push(format!("{}{}", name, q));
    }
    Some(parts.join(if rng.below(2) == 0 { ", " } else { "," }))
}

/// header block of a raw response: (status, [(name, value)], offset of body)
fn split_head(out: &[u8]) -> (u16, Vec<(String, String)>, usize) {
    let he = out.windows(4).position(|w| w == b"\r\n\r\n").map(|p| p + 4).unwrap_or(out.len());
    let head = String::from_utf8_lossy(&out[..he]).to_string();
    let mut lines = head.split("\r\n");
    let sl = lines.next().unwrap_or("");
    let st = sl.split(' ').nth(1).and_then(|s| s.parse().ok()).unwrap_or(0);
    let mut hs = Vec::new();
    for l in lines {
        if let Some(i) = l.find(':') {
            hs.push((l[..i].to_string(), l[i + 1..].trim().to_string()));
        }
    }
    (st, hs, he)
}

fn run_c05(case: &Value, id: &str, rng: &mut Rng) -> Value {
    let ver = match case["ver"].as_str().unwrap() {
        "0.9" => HTTPVersion(0, 9),
        "1.0" => HTTPVersion(1, 0),
        _ => HTTPVersion(1, 1),
    };
    let st: u16 = match case["st"].as_str().unwrap() {
        "1xx" => [100, 150, 199][rng.below(3)],
        "200" => 200,
        "204" => 204,
        "304" => 304,
        _ => [201, 205, 404, 500, 299][rng.below(5)],
    };
    let thr: usize = match case["thr"].as_str().unwrap() {
        "0" => 0,
        "1" => 1,
        "small" => 7,
        "default" => 32768,
        _ => usize::MAX,
    };
    let lenc = case["len"].as_str().unwrap();
    let declared: Option<usize> = match lenc {
        "unknown" => None,
        "0" => Some(0),
        "thr-1" => Some(thr - 1),
        "thr" => Some(thr),
        _ => Some(thr + 1),
    };
    let actual = match declared {
        None => [0usize, 10, 9000][rng.below(3)],
        Some(d) => d.min(70_000),
    };
    let faithful = declared.map_or(true, |d| d == actual);
    let head = case["head"].as_bool().unwrap();
    let upg = case["upg"].as_bool().unwrap();
    let mut req_headers = Vec::new();
    let te = te_header(&case["te"], rng);
    if let Some(t) = &te {
        let name = ["TE", "te", "Te"][rng.below(3)];
        req_headers.push(Header::from_bytes(name.as_bytes(), t.as_bytes()).unwrap());
    }
    // the same response built in three orders (concretiser's choice): constructor then threshold; a template whose
    // threshold is set BEFORE its data is replaced; a template whose data is replaced before the threshold is set
    let reader = PieceReader {
        data: body(actual),
        pos: 0,
        piece: 0,
    };
    let set_thr = case["thr"].as_str().unwrap() != "default" || rng.below(2) == 0;
    let build = ["new", "thr-then-data", "data-then-thr"][rng.below(3)];
    let resp = match build {
        "thr-then-data" => {
            let mut t = Response::new(StatusCode(st), vec![], std::io::Cursor::new(vec![1u8, 2, 3]), Some(3), None).boxed();
            if set_thr {
                t = t.with_chunked_threshold(thr);
            }
            t.with_data(reader, declared).boxed()
        }
        "data-then-thr" => {
            let mut t = Response::new(StatusCode(st), vec![], std::io::Cursor::new(vec![1u8, 2, 3]), Some(3), None)
                .with_data(reader, declared)
                .boxed();
            if set_thr {
                t = t.with_chunked_threshold(thr);
            }
            t
        }
        _ => {
            let mut t = Response::new(StatusCode(st), vec![], reader, declared, None).boxed();
            if set_thr {
                t = t.with_chunked_threshold(thr);
            }
            t
        }
    };
    let mut out = Vec::new();
    let r = resp.raw_print(&mut out, ver, &req_headers, head, if upg { Some("proto") } else { None });
    let (_st, hs, he) = split_head(&out);
    let cls: Vec<&(String, String)> = hs.iter().filter(|(n, _)| n.eq_ignore_ascii_case("Content-Length")).collect();
    let tes: Vec<&(String, String)> = hs.iter().filter(|(n, _)| n.eq_ignore_ascii_case("Transfer-Encoding")).collect();
    let hascl = !cls.is_empty();
    let haste = !tes.is_empty() && tes.iter().all(|(_, v)| v.eq_ignore_ascii_case("chunked"));
    let clmatches = cls.len() == 1 && cls[0].1.parse::<usize>().ok() == Some(declared.unwrap_or(actual));
    // how the body was actually coded on the wire
    let nobody = head || (100..200).contains(&st) || st == 204 || st == 304;
    let wire = &out[he..];
    let bodycoding = if nobody {
        "nobody"
    } else if upg {
        "none"
    } else if haste {
        // must decode as chunks to the application's bytes
        let mut p = httpc::Parser::new(vec![false]);
        let fs = p.feed(&out);
        if fs.len() == 1 && fs[0].wellformed && (!faithful || fs[0].body == body(actual)) {
            "chunked"
        } else {
            "broken"
        }
    } else if hascl {
        if !faithful || wire == &body(actual)[..] {
            "identity"
        } else {
            "broken"
        }
    } else {
        "broken"
    };
    json!({"prop":"C05","id":id,"case":case,"ok":r.is_ok(),"hascl":hascl,"haste":haste || !tes.is_empty(),
           "clmatches":clmatches,"bodycoding":bodycoding,"status":st,"te":te.unwrap_or_default(),"wire":wire.len(),"build":build})
}

fn run_c04(case: &Value, id: &str, _rng: &mut Rng) -> Value {
    let status = case["status"].as_u64().unwrap() as u16;
    let thr_c = case["thr"].as_str().unwrap();
    let len_c = case["len"].as_str().unwrap();
    let abs_len = |s: &str| -> Option<usize> { s.parse::<usize>().ok() };
    let (len, thr): (usize, usize) = match (abs_len(len_c), thr_c) {
        (Some(l), "len-1") => (l, l.saturating_sub(1)),
        (Some(l), "len") => (l, l),
        (Some(l), "len+1") => (l, l + 1),
        (Some(l), "0") => (l, 0),
        (Some(l), "1") => (l, 1),
        (Some(l), "default") => (l, 32768),
        (Some(l), _) => (l, usize::MAX),
        (None, t) => {
            // len relative to thr
            let base: usize = match t {
                "0" => 0,
                "1" => 1,
                "default" => 32768,
                "max" => usize::MAX,
                _ => 5000,
            };
            let (l, th) = match (len_c, t) {
                (_, "len-1") => (5000, 4999),
                (_, "len") => (5000, 5000),
                (_, "len+1") => (5000, 5001),
                ("thr-1", _) if base >= 1 && base < 1_000_000 => (base - 1, base),
                ("thr", _) if base < 1_000_000 => (base, base),
                ("thr+1", _) if base < 1_000_000 => (base + 1, base),
                _ => (5000, base),
            };
            (l, th)
        }
    };
    let declared = case["declared"].as_bool().unwrap();
    let ver = if case["ver"].as_str().unwrap() == "1.0" { HTTPVersion(1, 0) } else { HTTPVersion(1, 1) };
    let head = case["head"].as_bool().unwrap();
    let piece = case["piece"].as_u64().unwrap() as usize;
    let mut req_headers = Vec::new();
    let te = case["te"].as_str().unwrap();
    if te != "absent" {
        req_headers.push(Header::from_bytes(&b"TE"[..], te.as_bytes()).unwrap());
    }
    let data = body(len);
    let reader = PieceReader {
        data: data.clone(),
        pos: 0,
        piece,
    };
    let xapp = Header::from_bytes(&b"X-App"[..], &b"v"[..]).unwrap();
    let extra: Option<Header> = match case["apphdr"].as_str().unwrap_or("none") {
        "te-lower" => Some(Header::from_bytes(&b"transfer-encoding"[..], &b"chunked"[..]).unwrap()),
        "te-mixed-gzip" => Some(Header::from_bytes(&b"Transfer-encoding"[..], &b"gzip"[..]).unwrap()),
        "conn-upper" => Some(Header::from_bytes(&b"CONNECTION"[..], &b"close"[..]).unwrap()),
        "trailer-lower" => Some(Header::from_bytes(&b"trailer"[..], &b"X-T"[..]).unwrap()),
        _ => None,
    };
    let resp = if case["route"].as_str() == Some("tmpl") {
        // a template with its own (different) body, re-used with new data
        Response::from_string("a template body of some other length")
            .with_data(reader, if declared { Some(len) } else { None })
            .with_status_code(status)
            .with_header(xapp)
            .with_chunked_threshold(thr)
            .boxed()
    } else {
        let mut r = Response::new(StatusCode(status), vec![xapp], reader, if declared { Some(len) } else { None }, None)
            .with_chunked_threshold(thr)
            .boxed();
        if let Some(h) = extra {
            r.add_header(h);
        }
        r
    };
    let mut out = Vec::new();
    let r = resp.raw_print(&mut out, ver, &req_headers, head, None);
    // the client sees these bytes followed by the next response on the same connection
    let mut p = httpc::Parser::new(vec![head, false]);
    p.ignore_upgrade = true;
    let mut stream = out.clone();
    let sentinel = b"HTTP/1.1 299 Sentinel\r\nContent-Length: 0\r\n\r\n";
    stream.extend_from_slice(sentinel);
    // 1xx final statuses are "interim" for a streaming parser: count every frame before the sentinel
    let mut frames = p.feed(&stream);
    let (more, junk) = p.finish();
    frames.extend(more);
    let sent_ok = frames.last().map_or(false, |f| f.status == 299);
    let mine: Vec<&httpc::Frame> = frames.iter().take(frames.len().saturating_sub(if sent_ok { 1 } else { 0 })).collect();
    let f = mine.first();
    let mut case2 = case.clone();
    case2["lenclass"] = case["len"].clone();
    case2["len"] = json!(len);
    case2["thrnum"] = json!(if thr == usize::MAX { -1i64 } else { thr as i64 });
    json!({"prop":"C04","id":id,"case":case2,"ok":r.is_ok(),
           "frames": mine.len(), "junk": if sent_ok { junk } else { junk + 1 },
           "wf": f.map_or(false, |f| f.wellformed), "why": f.map_or("", |f| f.why),
           "status": f.map_or(0, |f| f.status), "delim": f.map_or("", |f| f.delim),
           "bodyok": f.map_or(false, |f| f.body == data), "blen": f.map_or(0, |f| f.body.len()),
           "wire": f.map_or(0, |f| f.wire_body_bytes)})
}

fn class_name(n: &str, mode: &str) -> String {
    let base = match n {
        "connection" => "Connection",
        "trailer" => "Trailer",
        "te" => "Transfer-Encoding",
        "upgrade" => "Upgrade",
        "cl" | "clbad" => "Content-Length",
        "ctype" => "Content-Type",
        "date" => "Date",
        "server" => "Server",
        "xa" => "X-A",
        _ => "X-B",
    };
    match mode {
        "lower" => base.to_ascii_lowercase(),
        "upper" => base.to_ascii_uppercase(),
        _ => base.to_string(),
    }
}

fn class_value(n: &str, v: u64) -> String {
    match n {
        "cl" => format!("{}", 11 * v),
        "clbad" => format!("abc{}", v),
        "date" => format!("Sun, 0{} Nov 1994 08:49:37 GMT", v),
        "ctype" => format!("text/v{}", v),
        _ => format!("app-{}-v{}", n, v),
    }
}

fn days_from_civil(y: i64, m: i64, d: i64) -> i64 {
    let y = if m <= 2 { y - 1 } else { y };
    let era = if y >= 0 { y } else { y - 399 } / 400;
    let yoe = y - era * 400;
    let doy = (153 * (if m > 2 { m - 3 } else { m + 9 }) + 2) / 5 + d - 1;
    let doe = yoe * 365 + yoe / 4 - yoe / 100 + doy;
    era * 146097 + doe - 719468
}

/// IMF-fixdate -> seconds since the epoch
fn parse_imf(s: &str) -> Option<i64> {
    // "Sun, 06 Nov 1994 08:49:37 GMT"
    let b = s.as_bytes();
    if b.len() != 29 || &s[3..5] != ", " || &s[25..] != " GMT" {
        return None;
    }
    let days = ["Mon", "Tue", "Wed", "Thu", "Fri", "Sat", "Sun"];
    let wd = days.iter().position(|d| *d == &s[0..3])?;
    let mons = ["Jan", "Feb", "Mar", "Apr", "May", "Jun", "Jul", "Aug", "Sep", "Oct", "Nov", "Dec"];
    let d: i64 = s[5..7].parse().ok()?;
    let mo = mons.iter().position(|m| *m == &s[8..11])? as i64 + 1;
    let y: i64 = s[12..16].parse().ok()?;
    let h: i64 = s[17..19].parse().ok()?;
    let mi: i64 = s[20..22].parse().ok()?;
    let se: i64 = s[23..25].parse().ok()?;
    if b[7] != b' ' || b[11] != b' ' || b[16] != b' ' || b[19] != b':' || b[22] != b':' {
        return None;
    }
    let dd = days_from_civil(y, mo, d);
    // 1970-01-01 was a Thursday (index 3 in Mon..Sun)
    if ((dd % 7 + 7 + 3) % 7) as usize != wd {
        return None;
    }
    Some(dd * 86400 + h * 3600 + mi * 60 + se)
}

fn observe_headers(out: &[u8], list: &[(String, u64)]) -> (Vec<Value>, usize, usize, usize, bool) {
    let (_st, hs, _he) = split_head(out);
    let mut sent = Vec::new();
    let mut ndate = 0;
    let mut nserver = 0;
    let mut nprot = 0;
    let mut datevalid = false;
    let now = std::time::SystemTime::now().duration_since(std::time::UNIX_EPOCH).unwrap().as_secs() as i64;
    let app_has = |c: &str| list.iter().any(|(n, _)| n == c);
    for (n, v) in hs.iter() {
        let ln = n.to_ascii_lowercase();
        // map back to (class, value id)
        let back = |cls: &str| -> Option<u64> { (1..=2).find(|k| class_value(cls, *k) == *v) };
        match ln.as_str() {
            "date" => {
                ndate += 1;
                if app_has("date") {
                    if let Some(k) = back("date") {
                        sent.push(json!({"n":"date","v":k}));
                    } else {
                        sent.push(json!({"n":"date","v":0}));
                    }
                } else if let Some(t) = parse_imf(v) {
                    datevalid = (t - now).abs() <= 2;
                }
            }
            "server" => {
                nserver += 1;
                if app_has("server") {
                    sent.push(json!({"n":"server","v":back("server").unwrap_or(0)}));
                }
            }
            "content-type" => sent.push(json!({"n":"ctype","v":back("ctype").unwrap_or(0)})),
            "x-a" => sent.push(json!({"n":"xa","v":back("xa").unwrap_or(0)})),
            "x-b" => sent.push(json!({"n":"xb","v":back("xb").unwrap_or(0)})),
            "connection" | "trailer" | "upgrade" => nprot += 1,
            "transfer-encoding" => {
                if !v.eq_ignore_ascii_case("chunked") {
                    nprot += 1;
                }
            }
            "content-length" => {
                if v.parse::<usize>().is_err() {
                    nprot += 1;
                }
            }
            _ => {
                // an ordinary header under another name (ncase "lookalike"): recognised by its value
                let cls = ["xa", "xb"].iter().find(|c| (1..=2).any(|k| class_value(c, k) == *v));
                match cls {
                    Some(c) => sent.push(json!({"n":*c,"v":(1..=2).find(|k| class_value(c, *k) == *v).unwrap_or(0)})),
                    None => sent.push(json!({"n":ln,"v":0})),
                }
            }
        }
    }
    if hs.iter().filter(|(n, _)| n.eq_ignore_ascii_case("Content-Length")).count() > 1 {
        nprot += 1;
    }
    (sent, ndate, nserver, nprot, datevalid)
}

fn run_c19(case: &Value, id: &str, _rng: &mut Rng) -> Value {
    let list: Vec<(String, u64)> = case["list"]
        .as_array()
        .unwrap()
        .iter()
        .map(|h| (h["n"].as_str().unwrap().to_string(), h["v"].as_u64().unwrap()))
        .collect();
    let mode = case["ncase"].as_str().unwrap();
    let route = case["route"].as_str().unwrap();
    const LOOKALIKES: [&str; 16] = [
        "Server-Timing", "Date-Generated", "Upgrade-Insecure-Requests", "Trailer-Info", "Content-Length-Hint", "Content-Type-Options",
        "Connection-Id", "Transfer-Encoding-X", "Serv", "Dat", "Upgrad", "Content-Typ", "Connectio", "Trail", "Content-Lengt", "Transfer-Encodin",
    ];
    let salt = id.bytes().fold(0usize, |a, b| a.wrapping_mul(31).wrapping_add(b as usize));
    let hdrs: Vec<Header> = list
        .iter()
        .enumerate()
        .map(|(i, (n, v))| {
            let m = if mode == "mixed" { ["std", "lower", "upper"][i % 3] } else { mode };
            let name = if mode == "lookalike" && (n == "xa" || n == "xb") {
                LOOKALIKES[(salt + 5 * i + if n == "xb" { 3 } else { 0 }) % LOOKALIKES.len()].to_string()
            } else {
                class_name(n, m)
            };
            Header::from_bytes(name.as_bytes(), class_value(n, *v).as_bytes()).unwrap()
        })
        .collect();
    let data = b"hello".to_vec();
    // "+wd": the body is replaced (with_data) after the first half of the list has been given
    let (base, wd) = match route.strip_suffix("+wd") {
        Some(b) => (b, true),
        None => (route, false),
    };
    let split = if wd { (hdrs.len() + 1) / 2 } else { hdrs.len() };
    let mut first = hdrs;
    let rest = first.split_off(split);
    let mut resp = match base {
        // every third constructor case hands the same list over through the constructor's receiver, from a thread that
        // is still producing while the constructor runs (the constructor takes headers until the sender is gone)
        "ctor" if id.bytes().map(|b| b as u32).sum::<u32>() % 3 == 0 => {
            let (tx, rx) = std::sync::mpsc::channel();
            let list2 = first;
            let producer = std::thread::spawn(move || {
                for (i, h) in list2.into_iter().enumerate() {
                    if i > 0 {
                        std::thread::sleep(std::time::Duration::from_millis(3));
                    }
                    if tx.send(h).is_err() {
                        break;
                    }
                }
            });
            let r = Response::new(StatusCode(200), vec![], std::io::Cursor::new(data.clone()), Some(5), Some(rx));
            let _ = producer.join();
            r
        }
        "ctor" => Response::new(StatusCode(200), first, std::io::Cursor::new(data.clone()), Some(5), None),
        "add" => {
            let mut r = Response::new(StatusCode(200), vec![], std::io::Cursor::new(data.clone()), Some(5), None);
            for h in first {
                r.add_header(h);
            }
            r
        }
        _ => {
            let mut r = Response::new(StatusCode(200), vec![], std::io::Cursor::new(data.clone()), Some(5), None);
            for h in first {
                r = r.with_header(h);
            }
            r
        }
    };
    if wd {
        resp = resp.with_data(std::io::Cursor::new(data), Some(5));
        for h in rest {
            if base == "add" {
                resp.add_header(h);
            } else {
                resp = resp.with_header(h);
            }
        }
    }
    let declared = resp.data_length().map(|x| x as i64).unwrap_or(-1);
    let mut out = Vec::new();
    let _ = resp.raw_print(&mut out, HTTPVersion(1, 1), &[], true, None);
    let (sent, ndate, nserver, nprot, datevalid) = observe_headers(&out, &list);
    let mut case2 = case.clone();
    case2["ctorlen"] = json!(5);
    json!({"prop":"C19","id":id,"case":case2,"sent":sent,"ndate":ndate,"nserver":nserver,"nprotected":nprot,
           "datevalid":datevalid,"declared":declared})
}

/// constructors: declared length = byte length of the data they were given
fn ctor_cases(out: &mut Vec<Value>) {
    let mut k = 0;
    let mut push = |name: &str, declared: Option<usize>, bytes: usize, raw: Vec<u8>, out: &mut Vec<Value>| {
        let (sent, ndate, nserver, nprot, datevalid) = observe_headers(&raw, &[]);
        // from_string adds its own Content-Type: that is the constructor's header, not the application's
        let sent: Vec<Value> = sent.into_iter().filter(|h| h["n"] != "ctype").collect();
        out.push(json!({"prop":"C19","id":format!("C19-ctor-{}-{}", name, k),
            "case":{"list":[],"route":name,"ncase":"std","ctorlen":bytes as i64},
            "sent":sent,"ndate":ndate,"nserver":nserver,"nprotected":nprot,"datevalid":datevalid,
            "declared":declared.map(|x| x as i64).unwrap_or(-1)}));
        k += 1;
    };
    for s in ["", "a", "hello world", "h\u{e9}llo w\u{f6}rld \u{20ac}", "\u{1F600}\u{1F600}", "\u{65e5}\u{672c}\u{8a9e}"] {
        let r = Response::from_string(s);
        let d = r.data_length();
        let mut o = Vec::new();
        let _ = r.raw_print(&mut o, HTTPVersion(1, 1), &[], true, None);
        push("from_string", d, s.len(), o, out);
    }
    for n in [0usize, 1, 5000, 40000] {
        let r = Response::from_data(body(n));
        let d = r.data_length();
        let mut o = Vec::new();
        let _ = r.raw_print(&mut o, HTTPVersion(1, 1), &[], true, None);
        push("from_data", d, n, o, out);
    }
    for n in [0usize, 1, 5000] {
        let dir = std::env::var("VERIF_TMP").unwrap_or_else(|_| "/verif/work".to_string());
        let _ = std::fs::create_dir_all(&dir);
        let p = format!("{}/fnfile-{}-{}.bin", dir, std::process::id(), n);
        std::fs::write(&p, body(n)).unwrap();
        let r = Response::from_file(std::fs::File::open(&p).unwrap());
        let d = r.data_length();
        let mut o = Vec::new();
        let _ = r.raw_print(&mut o, HTTPVersion(1, 1), &[], true, None);
        let _ = std::fs::remove_file(&p);
        push("from_file", d, n, o, out);
    }
    for st in [200u16, 204, 404] {
        let r = Response::empty(st);
        let d = r.data_length();
        let mut o = Vec::new();
        let _ = r.raw_print(&mut o, HTTPVersion(1, 1), &[], true, None);
        push("empty", d, 0, o, out);
    }
    for n in [0usize, 7, 3000] {
        let r = Response::from_string("some other text").with_data(std::io::Cursor::new(body(n)), Some(n));
        let d = r.data_length();
        let mut o = Vec::new();
        let _ = r.raw_print(&mut o, HTTPVersion(1, 1), &[], true, None);
        push("with_data", d, n, o, out);
    }
}

/// "holding the current time": one thread answers every 250 ms for a little over four seconds (real time); every
/// response carries the time of its own printing, not the time of an earlier one
fn date_sequence(out: &mut Vec<Value>) {
    let mut all_ok = true;
    let mut worst = 0i64;
    let mut last = (Vec::new(), 0usize, 0usize, 0usize);
    for _ in 0..18 {
        let r = Response::from_data(body(5));
        let mut o = Vec::new();
        let _ = r.raw_print(&mut o, HTTPVersion(1, 1), &[], true, None);
        let now = std::time::SystemTime::now().duration_since(std::time::UNIX_EPOCH).unwrap().as_secs() as i64;
        let text = String::from_utf8_lossy(&o).to_string();
        let date = text.lines().find_map(|l| {
            let (n, v) = l.split_once(':')?;
            if n.eq_ignore_ascii_case("date") { Some(v.trim().to_string()) } else { None }
        });
        match date.as_deref().and_then(parse_imf) {
            Some(t) => {
                worst = worst.max((t - now).abs());
                if (t - now).abs() > 2 {
                    all_ok = false;
                }
            }
            None => all_ok = false,
        }
        let (sent, ndate, nserver, nprot, _dv) = observe_headers(&o, &[]);
        last = (sent, ndate, nserver, nprot);
        std::thread::sleep(std::time::Duration::from_millis(250));
    }
    out.push(json!({"prop":"C19","id":"C19-date-sequence",
        "case":{"list":[],"route":"date-sequence","ncase":"std","ctorlen":5, "worst_skew_s": worst},
        "sent":last.0,"ndate":last.1,"nserver":last.2,"nprotected":last.3,"datevalid":all_ok,"declared":5}));
}

pub fn main_fn(args: &[String]) {
    let cases = arg(args, "--cases").expect("--cases");
    let outp = arg(args, "--out").expect("--out");
    let prop = arg(args, "--prop").expect("--prop");
    let seed: u64 = arg(args, "--seed").and_then(|s| s.parse().ok()).unwrap_or(1);
    let mut rng = Rng(seed.wrapping_mul(0x9E3779B97F4A7C15) | 1);
    let f = std::io::BufReader::new(std::fs::File::open(&cases).expect("open cases"));
    let mut out = std::io::BufWriter::new(std::fs::File::create(&outp).expect("create out"));
    let mut n = 0u64;
    for line in f.lines() {
        let line = line.unwrap();
        if line.trim().is_empty() {
            continue;
        }
        let case: Value = match serde_json::from_str(&line) {
            Ok(c) => c,
            Err(e) => {
                eprintln!("TOOL-ERROR bad case: {}", e);
                std::process::exit(2);
            }
        };
        let id = format!("{}-{:06}", prop, n);
        let r = std::panic::catch_unwind(std::panic::AssertUnwindSafe(|| match prop.as_str() {
            "C05" => run_c05(&case, &id, &mut rng),
            "C04" => run_c04(&case, &id, &mut rng),
            _ => run_c19(&case, &id, &mut rng),
        }));
        let o = match r {
            Ok(o) => o,
            // a panic while a response is being built / printed is an observation (the judge reports it), not a
            // failure of the tooling: the drivers only call the library on in-memory data
            Err(_) => json!({"prop": prop, "id": id, "case": case, "panicked": true}),
        };
        writeln!(out, "{}", o).unwrap();
        n += 1;
    }
    if prop == "C19" {
        let mut extra = Vec::new();
        ctor_cases(&mut extra);
        date_sequence(&mut extra);
        for o in extra {
            writeln!(out, "{}", o).unwrap();
            n += 1;
        }
    }
    out.flush().unwrap();
    println!("DONE cases={}", n);
}
