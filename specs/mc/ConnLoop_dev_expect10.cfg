\* every pipeline of 1..2 messages over the 17 message kinds (version x Connection class, the rejected classes),
\* with and without the client's half-close; all interleavings of parsing and answering
SPECIFICATION FairSpec
CONSTANTS
  Wires <- Wires2
  DevKeepAliveWins = FALSE
  DevNoExpect10 = TRUE
INVARIANTS TypeOK NeverBeyondStop InWireOrder StatusOK ClosedAfterAll NotClosedWhileUsable

CHECK_DEADLOCK FALSE
