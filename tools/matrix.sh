#!/bin/sh
# cross-check matrix: every seeded change against its own property's check and the checks of the
# properties that share its mechanism (isolated: /repo is not touched). usage: matrix.sh <lanes>
lanes="${1:-3}"
cd /verif
python3 - <<'PY' > /verif/work/matrix.jobs
import os
groups=[["C07","C17"],["C08","C20"],["C01","C06","C10"],["C03","C09","C11","C13","C15","C18"],["C02","C10","C16","C12"],["C04","C05","C19"],["C14"]]
for d in sorted(os.listdir("/verif/seeded")):
    own=d.split("-")[0]
    props=[own]
    for g in groups:
        if own in g:
            props += [p for p in g if p not in props]
    if os.path.exists("/verif/seeded/%s/patch.diff"%d):
        print("/verif/seeded/%s/patch.diff %s" % (d, " ".join(props)))
PY
cat /verif/work/matrix.jobs | xargs -P "$lanes" -L 1 sh -c 'timeout 5400 /verif/tools/isolated.py "$@" 2>&1 | grep -E "exit="' _ > /verif/work/matrix.log 2>&1
echo MATRIX-DONE >> /verif/work/matrix.log
