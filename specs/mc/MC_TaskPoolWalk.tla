------------------------- MODULE MC_TaskPoolWalk -------------------------
(***************************************************************************)
(* Specification -> implementation direction for the worker pool: TLC      *)
(* simulates mech/TaskPool and writes every behaviour as one JSON line     *)
(* (the actions with the worker / connection they concern, the worker a    *)
(* notify_one woke, and the abstract state after each action).  `d1 walk   *)
(* --kind pool` steps the real server through exactly these actions under  *)
(* vrt's directed scheduler -- one library thread at a time -- and         *)
(* compares the abstract state after every action.                         *)
(*                                                                         *)
(* Grain: the states "fetch" and "exiting" are transient in the code (no   *)
(* blocking point separates Start/Finish from the following Fetch, or a    *)
(* timed-out Wake from the following Exit), so the walk forces the         *)
(* continuation: while some worker is in a transient state, only its       *)
(* Fetch / Exit may happen.  Everything else interleaves freely.           *)
(***************************************************************************)
EXTENDS TaskPool, Json

VARIABLE hist
wvars == <<vars, hist>>

WokenW(old, new) == LET S == {w \in Workers : old[w] \in {"waitU", "waitT"} /\ new[w] = "woken"} IN IF S = {} THEN 0 ELSE CHOOSE w \in S : TRUE

Snap == [todo |-> Len(todo'), ws |-> [w \in Workers |-> ws'[w]], waiting |-> waitingCnt', active |-> activeCnt', created |-> created']

Log(a, w, k) == hist' = Append(hist, [a |-> a, w |-> w, k |-> k, wk |-> WokenW(ws, ws'), s |-> Snap])

Transient == {w \in Workers : ws[w] \in {"fetch", "exiting"}}

WInit == Init /\ hist = <<>>

WNext ==
    IF Transient # {}
    THEN \E w \in Transient : \/ Fetch(w) /\ Log("Fetch", w, 0)
                              \/ Exit(w) /\ Log("Exit", w, 0)
    ELSE \/ Dispatch /\ Log("Dispatch", 0, next + 1)
         \/ \E w \in Workers : \/ Start(w) /\ Log("Start", w, task[w])
                               \/ Timeout(w) /\ Log("Timeout", w, 0)
                               \/ Wake(w) /\ Log("Wake", w, 0)
                               \/ Finish(w) /\ Log("Finish", w, task[w])

WSpec == WInit /\ [][WNext]_wvars

Done == ~ENABLED WNext \/ Len(hist) >= 45
Emit == Done => PrintT(<<"WALK", ToJson([hist |-> hist])>>)
Bound == Len(hist) <= 45
=============================================================================
