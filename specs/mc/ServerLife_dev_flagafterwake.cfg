\* deviation (seeded C20-e): close flag stored after the wake-up connect -- the accept thread stays parked
SPECIFICATION Spec
CONSTANTS
  Clients = {c1, c2, c3}
  Unix = TRUE
  FlagAfterWake = TRUE
  NoWake = FALSE
  UnwrapOnAccept = FALSE
  CheckEverySecond = FALSE
INVARIANTS TypeOK NeverParkedAfterDrop
CHECK_DEADLOCK FALSE
