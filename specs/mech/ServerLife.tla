----------------------------- MODULE ServerLife -----------------------------
(***************************************************************************)
(* The life of the listening socket (C20, first sentence; C15/C14 for      *)
(* connections that die before they are accepted): the accept thread of    *)
(* Server::from_listener (src/lib.rs), Server::drop, and clients that      *)
(* connect, or connect and vanish, at any moment.                          *)
(*                                                                         *)
(* One action per step of the code:                                        *)
(*   accept thread   while !close.load() { accept(); ClientConnection::new *)
(*                   (peer_addr); pool.spawn } ; drop(pool); drop(listener)*)
(*   Server::drop    close.store(true); connect to ourselves; (UNIX:       *)
(*                   remove the socket path)                               *)
(* The kernel's accept queue is the sequence `backlog`; a connection that  *)
(* is reset while it waits there stays in the queue and is still handed to *)
(* accept() (its peer address can no longer be asked for).                 *)
(*                                                                         *)
(* Deviation constants name what seeded changes (and two defects of the    *)
(* code itself) did; all FALSE is the code as repaired.                    *)
(***************************************************************************)
EXTENDS Integers, Sequences, FiniteSets

CONSTANTS Clients,             \* ids of the client connections
          Unix,                \* listening on a UNIX socket path
          FlagAfterWake,       \* deviation: the close flag is stored after the wake-up connect (seeded C20-e)
          NoWake,              \* deviation: drop does not connect to itself
          UnwrapOnAccept,      \* deviation: a failed peer_addr() is unwrapped on the accept thread (seeded C15-13)
          CheckEverySecond     \* deviation: the flag is looked at only before every second accept

Wake == 0      \* (not a client id)
ASSUME Wake \notin Clients

VARIABLES flag,        \* the AtomicBool `close`
          listener,    \* "open" | "closed"   (the listening socket exists)
          backlog,     \* accept queue: client ids and Wake, in arrival order
          conn,        \* client -> "idle" | "queued" | "dead" (reset while queued) | "accepted" | "refused" | "aborted"
          acc,         \* accept thread: "check" | "accept" | "dispatch" | "exiting" | "exited" | "panicked"
          iter,        \* accept-loop iterations so far (for CheckEverySecond)
          drp,         \* Server::drop: "alive" | "s1" | "path" | "done"
          path,        \* the UNIX socket path exists
          late         \* client connections taken from the queue after the flag was stored

vars == <<flag, listener, backlog, conn, acc, iter, drp, path, late>>

Init == /\ flag = FALSE /\ listener = "open" /\ backlog = <<>>
        /\ conn = [c \in Clients |-> "idle"]
        /\ acc = "check" /\ iter = 0 /\ drp = "alive" /\ path = Unix /\ late = 0

(* ---- clients ---------------------------------------------------------- *)
Connect(c) ==
    /\ conn[c] = "idle"
    /\ IF listener = "open"
          THEN /\ backlog' = Append(backlog, c) /\ conn' = [conn EXCEPT ![c] = "queued"]
          ELSE /\ conn' = [conn EXCEPT ![c] = "refused"] /\ UNCHANGED backlog
    /\ UNCHANGED <<flag, listener, acc, iter, drp, path, late>>

\* the client resets the connection before the server has accepted it
Vanish(c) ==
    /\ conn[c] = "queued"
    /\ conn' = [conn EXCEPT ![c] = "dead"]
    /\ UNCHANGED <<flag, listener, backlog, acc, iter, drp, path, late>>

(* ---- accept thread ---------------------------------------------------- *)
\* (the ...To forms name the control point reached, so that a trace specification can fold two steps of the
\*  thread into one observed event)
AccCheckTo(pcexit) ==
    /\ acc = "check"
    /\ LET looks == ~CheckEverySecond \/ iter % 2 = 0 IN
       acc' = IF looks /\ flag THEN pcexit ELSE "accept"
    /\ UNCHANGED <<flag, listener, backlog, conn, iter, drp, path, late>>
AccCheck == AccCheckTo("exiting")

AccAcceptTo(pcnext) ==
    /\ acc = "accept" /\ backlog # <<>>
    /\ LET x == Head(backlog) IN
       /\ backlog' = Tail(backlog)
       /\ iter' = iter + 1
       /\ IF x = Wake
             THEN /\ acc' = pcnext /\ UNCHANGED <<conn, late>>
             ELSE /\ conn' = [conn EXCEPT ![x] = "accepted"]
                  /\ late' = IF flag THEN late + 1 ELSE late
                  \* ClientConnection::new asks for the peer address: it fails for a connection that died in the queue;
                  \* the result is stored and the connection handled like any other (it ends in its own worker)
                  /\ acc' = IF conn[x] = "dead" /\ UnwrapOnAccept THEN "panicked" ELSE pcnext
    /\ UNCHANGED <<flag, listener, drp, path>>
AccAccept == AccAcceptTo("dispatch")

AccDispatch ==
    /\ acc = "dispatch" /\ acc' = "check"
    /\ UNCHANGED <<flag, listener, backlog, conn, iter, drp, path, late>>

AccExit ==
    /\ acc = "exiting" /\ acc' = "exited"
    /\ UNCHANGED <<flag, listener, backlog, conn, iter, drp, path, late>>

\* the thread's closure ends (or unwinds): the pool and then the listening socket are dropped; what still waits in
\* the accept queue is reset
AccCloseListener ==
    /\ acc \in {"exited", "panicked"} /\ listener = "open"
    /\ listener' = "closed"
    /\ conn' = [c \in Clients |-> IF conn[c] \in {"queued", "dead"} THEN "aborted" ELSE conn[c]]
    /\ backlog' = <<>>
    /\ UNCHANGED <<flag, acc, iter, drp, path, late>>

(* ---- Server::drop ----------------------------------------------------- *)
Store == flag' = TRUE
WakeUp == IF listener = "open" /\ ~NoWake THEN backlog' = Append(backlog, Wake) ELSE UNCHANGED backlog

Drop1 ==
    /\ drp = "alive" /\ drp' = "s1"
    /\ IF FlagAfterWake THEN WakeUp /\ UNCHANGED flag ELSE Store /\ UNCHANGED backlog
    /\ UNCHANGED <<listener, conn, acc, iter, path, late>>

Drop2 ==
    /\ drp = "s1" /\ drp' = IF Unix THEN "path" ELSE "done"
    /\ IF FlagAfterWake THEN Store /\ UNCHANGED backlog ELSE WakeUp /\ UNCHANGED flag
    /\ UNCHANGED <<listener, conn, acc, iter, path, late>>

DropPath ==
    /\ drp = "path" /\ drp' = "done" /\ path' = FALSE
    /\ UNCHANGED <<flag, listener, backlog, conn, acc, iter, late>>

Next == \/ \E c \in Clients : Connect(c) \/ Vanish(c)
        \/ AccCheck \/ AccAccept \/ AccDispatch \/ AccExit \/ AccCloseListener
        \/ Drop1 \/ Drop2 \/ DropPath

AccFair == WF_vars(AccCheck) /\ WF_vars(AccAccept) /\ WF_vars(AccDispatch) /\ WF_vars(AccExit) /\ WF_vars(AccCloseListener)
Spec == Init /\ [][Next]_vars /\ AccFair

(* ---- properties -------------------------------------------------------- *)
TypeOK == /\ flag \in BOOLEAN /\ listener \in {"open", "closed"} /\ path \in BOOLEAN
          /\ acc \in {"check", "accept", "dispatch", "exiting", "exited", "panicked"}
          /\ drp \in {"alive", "s1", "path", "done"}
          /\ conn \in [Clients -> {"idle", "queued", "dead", "accepted", "refused", "aborted"}]

\* while the server object is alive the socket listens and the accept thread is in its loop: no client, however it
\* behaves, is refused or can stop the accepting (C15: a vanishing client is contained)
ServingWhileAlive == drp = "alive" => (listener = "open" /\ acc \in {"check", "accept", "dispatch"})
NoRefusalWhileAlive == \A c \in Clients : conn[c] \in {"refused", "aborted"} => drp # "alive"

\* once drop has returned the accept thread is never parked on an empty queue: it is on its way out (C20: "stops accepting")
NeverParkedAfterDrop == (drp = "done" /\ acc = "accept") => backlog # <<>>
\* at most one client connection is taken from the queue after the flag was stored (the one accept() was waiting for)
BoundedLateAccepts == late <= 1
\* the UNIX socket path is gone when drop returns
PathRemoved == (Unix /\ drp = "done") => ~path

\* liveness: after drop the listening socket is eventually closed (new connection attempts are refused)
StopsListening == (drp = "done") ~> (listener = "closed")
=============================================================================
