------------------------------- MODULE MC_Fn -------------------------------
(***************************************************************************)
(* TLC-only module for the function-level properties C04, C05, C19:        *)
(*  * checks the decision table of fn/TransferCoding against the clauses   *)
(*    of the statement and against the code-shaped transcription, over the *)
(*    whole abstract domain (ASSUME DomainChecks);                         *)
(*  * generation: writes the abstract case products as ndjson (GenC05,     *)
(*    GenC04, GenC19) for the direct-API driver;                           *)
(*  * validation: reads the driver's observations and evaluates the        *)
(*    judges' guards on every one of them (CheckObs).                      *)
(* Selected by the environment variable FN_MODE.                           *)
(***************************************************************************)
EXTENDS Integers, Sequences, FiniteSets, TLC, Json, IOUtils, SequencesExt

TC == INSTANCE TransferCoding
RM == INSTANCE ResponseMsg
HP == INSTANCE HeaderPolicy
HS == INSTANCE HeadSyntax

Mode == IF "FN_MODE" \in DOMAIN IOEnv THEN IOEnv.FN_MODE ELSE "domain"
Tier == IF "FN_TIER" \in DOMAIN IOEnv THEN IOEnv.FN_TIER ELSE "quick"
OutFile == IOEnv.FN_OUT
ObsFile == IOEnv.FN_OBS

\* ---- TE header domain
QsQuick == {"absent", "0.5", "0.5009", "0", "bad"}
Entries(qs) == [c : TC!Codings, q : qs]
TEs(qs3, qs2) ==
    {<<>>} \cup {<<e>> : e \in Entries(TC!Qs)}
           \cup {<<e1, e2>> : e1 \in Entries(qs2), e2 \in Entries(qs2)}
           \cup {<<e1, e2, e3>> : e1 \in Entries(qs3), e2 \in Entries(qs3), e3 \in Entries(qs3)}
TEDomain == IF Tier = "quick" THEN TEs({}, QsQuick) ELSE TEs({"0.5", "0"}, TC!Qs)

HU == {<<FALSE, FALSE>>, <<TRUE, FALSE>>, <<FALSE, TRUE>>}
C05Cases ==
    {c \in [ver : TC!Versions, st : TC!StClasses, len : TC!Lens, thr : TC!Thrs, te : TEDomain, hu : HU] : TC!LenValid(c)}
Norm(c) == [ver |-> c.ver, st |-> c.st, len |-> c.len, thr |-> c.thr, te |-> c.te, head |-> c.hu[1], upg |-> c.hu[2]]

DomainChecks ==
    \A c0 \in C05Cases : LET c == Norm(c0) IN
        /\ TC!NeverChunkedOld(c) /\ TC!NeverChunked1xx204(c) /\ TC!ThresholdRule(c) /\ TC!ChooseAgrees(c)
        /\ TC!Choose(c) # {}

GenC05(f) == ndJsonSerialize(f, SetToSeq({Norm(c) : c \in C05Cases}))

\* ---- C04 product
Statuses == {100, 101, 199, 200, 204, 205, 299, 304, 404, 500, 599, 999}
C04Lens == {"0", "1", "8191", "8192", "8193", "thr-1", "thr", "thr+1"}
C04Thrs == {"0", "1", "len-1", "len", "len+1", "default", "max"}
C04TE == {"absent", "chunked", "identity", "chunked;q=0, identity"}
C04Cases ==
    \* route: the response is built by Response::new, or ("tmpl") from a template with a body of another length
    \* whose data is then replaced by with_data (declared or undeclared), status and threshold set afterwards
    [status : Statuses, len : C04Lens, declared : BOOLEAN, thr : C04Thrs, ver : {"1.0", "1.1"}, head : BOOLEAN,
     te : C04TE, piece : {1, 100, 0}, route : {"new", "tmpl"},
     \* apphdr: a header the application adds that would change the framing if it reached the wire (odd letter case)
     apphdr : {"none", "te-lower", "te-mixed-gzip", "conn-upper", "trailer-lower"}]
C04Pick(c) == /\ (Tier # "quick" \/ (c.piece = 0 \/ (c.len \in {"8193", "thr"} /\ c.te = "absent")))
              /\ (c.route = "tmpl" => c.piece = 0)
              /\ (c.apphdr # "none" => (c.route = "new" /\ c.piece = 0 /\ c.len \in {"1", "8193"} /\ c.thr \in {"default", "0"} /\ c.te \in {"absent", "chunked"}))
GenC04(f) == ndJsonSerialize(f, SetToSeq({c \in C04Cases : C04Pick(c)}))

\* ---- C19 product: header lists
HVals == {1, 2}
Hdr == [n : HP!Classes, v : HVals]
ListsUpTo3 == {<<>>} \cup {<<a>> : a \in [n : HP!Classes, v : {1}]}
                    \cup {<<a, b>> : a \in [n : HP!Classes, v : {1}], b \in [n : HP!Classes, v : {2}]}
                    \cup {<<a, b, c>> : a \in [n : HP!Classes, v : {1}], b \in [n : HP!Classes, v : {2}], c \in [n : HP!Classes, v : {1}]}
Lists4 == {<<a, b, c, d>> : a \in [n : {"ctype", "cl", "xa", "date"}, v : {1}], b \in [n : {"ctype", "connection", "xa", "server"}, v : {2}],
                            c \in [n : {"ctype", "cl", "te", "xb"}, v : {2}], d \in [n : HP!Classes, v : {1}]}
C19Lists == IF Tier = "quick" THEN {l \in ListsUpTo3 : Len(l) <= 2} \cup Lists4 ELSE ListsUpTo3 \cup Lists4
\* ncase "mixed": the i-th header of the list uses the i-th letter-case pattern (std, lower, upper, ...)
\* how the list reaches the response: through the constructor, add_header or with_header; "+wd" = the body is
\* replaced (with_data) after the first half of the list, the rest is added afterwards (for ctor: by with_header)
Routes == {"ctor", "add", "with", "ctor+wd", "add+wd", "with+wd"}
\* ncase "lookalike": the ordinary headers xa / xb are spelled with names that extend, or are proper prefixes of, the
\* special names (Server-Timing, Date-Generated, Upgrade-Insecure-Requests, Content-Typ, ...): they are ordinary headers
C19Cases == [list : C19Lists, route : Routes, ncase : {"std", "lower", "upper", "mixed", "lookalike"}]
C19Pick(c) == /\ (Tier # "quick" \/ c.ncase \in {"std", "mixed", "lookalike"} \/ Len(c.list) <= 1)
              /\ (c.ncase = "lookalike" => (c.route \in {"ctor", "add", "with"} /\ \E i \in 1..Len(c.list) : c.list[i].n \in {"xa", "xb"}))
              /\ (c.route \in {"ctor+wd", "add+wd", "with+wd"} => Len(c.list) >= 1 /\ (Tier # "quick" \/ c.ncase \in {"std", "mixed"}))
GenC19(f) == ndJsonSerialize(f, SetToSeq({c \in C19Cases : C19Pick(c)}))

\* ---- C02: every valid header line over the abstract alphabet, with its reference parse
C02Lines == IF Tier = "quick" THEN HS!ValidLines(2, 3) ELSE HS!ValidLines(2, 4)
GenC02(f) == ndJsonSerialize(f, SetToSeq({[line |-> l, name |-> HS!FieldName(l), value |-> HS!FieldValue(l)] : l \in C02Lines}))
\* sanity of the reference operators themselves
\* ---- C16: every arrangement of up to three framing headers, with its reference class and framing
C16Heads == HS!FramingHeads(3)
GenC16(f) == ndJsonSerialize(f, SetToSeq({[hs |-> h, cls |-> HS!FramingClass(h), by |-> HS!FramedBy(h)] : h \in C16Heads}))
\* (sanity of the reference: a head without Content-Length is never refused for its framing headers; one bad value is enough)
C16Sane == /\ \A h \in C16Heads : (\A i \in 1..Len(h) : h[i] \in {"te", "other", "cl:valid"}) <=> HS!FramingClass(h) = "ok"
           /\ \A h \in C16Heads : HS!FramedBy(h) = "chunked" <=> \E i \in 1..Len(h) : h[i] = "te"
C02Sane == \A l \in HS!ValidLines(2, 2) : HS!LineClass(l) = "ok" /\ HS!FieldName(l) # <<>>
                 /\ (HS!FieldValue(l) # <<>> => (Head(HS!FieldValue(l)) \notin HS!OWS /\ HS!FieldValue(l)[Len(HS!FieldValue(l))] \notin HS!OWS))

\* ---- validation of observations
ObsOf(f) == ndJsonDeserialize(f)

Report(o, i, p, gs) == \A k \in 1..Len(gs) : gs[k][1] \/ PrintT(<<"VIOL", o.id, i, p, gs[k][2]>>)

C05Guards(o) ==
    LET allowed == TC!Choose(o.case) IN
    << <<\E out \in allowed : TC!FramingOK(out, o), "FramingHeaders">>,
       \* the body is coded as the headers say (a body that is not validly coded at all is C04's business)
       <<(o.bodycoding \in {"identity", "chunked"}) => o.bodycoding \in allowed, "BodyCoding">> >>

CheckObs ==
    LET Obs == ObsOf(ObsFile) IN
    /\ \A i \in 1..Len(Obs) :
         LET o == Obs[i] IN
           CASE "panicked" \in DOMAIN o -> Report(o, i, o.prop, << <<FALSE, "PanickedWhilePrinting">> >>)
             [] o.prop = "C05" -> Report(o, i, "C05", C05Guards(o))
             [] o.prop = "C04" -> Report(o, i, "C04", RM!Guards(o))
             [] o.prop = "C19" -> Report(o, i, "C19", HP!Guards(o))
    /\ PrintT(<<"DONE", Len(Obs)>>)

ASSUME
    CASE Mode = "domain" -> DomainChecks /\ PrintT(<<"DOMAIN-OK", Cardinality(C05Cases)>>)
      [] Mode = "genC05" -> GenC05(OutFile) /\ PrintT(<<"GEN", Cardinality(C05Cases)>>)
      [] Mode = "genC04" -> GenC04(OutFile) /\ PrintT(<<"GEN", Cardinality({c \in C04Cases : C04Pick(c)})>>)
      [] Mode = "genC19" -> GenC19(OutFile) /\ PrintT(<<"GEN", Cardinality({c \in C19Cases : C19Pick(c)})>>)
      [] Mode = "genC02" -> C02Sane /\ GenC02(OutFile) /\ PrintT(<<"GEN", Cardinality(C02Lines)>>)
      [] Mode = "genC16" -> C16Sane /\ GenC16(OutFile) /\ PrintT(<<"GEN", Cardinality(C16Heads)>>)
      [] Mode = "check" -> CheckObs

VARIABLE dummy
Spec == dummy = 0 /\ [][UNCHANGED dummy]_dummy
=============================================================================
