SPECIFICATION FairSpec
CONSTANTS
  N = 4
  Plans <- AllPlans
  ConnErr = TRUE
  DevWriterDropSkipsTurn = FALSE
  DevFlushReleases = FALSE
  Dev505OnNextWriter = FALSE
INVARIANTS TypeOK OrderInv NoDup Complete NoHoldUp ClosedHasAll
PROPERTIES EveryoneFinishes
CHECK_DEADLOCK FALSE
