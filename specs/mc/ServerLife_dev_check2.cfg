\* deviation: the flag is looked at before every second accept only
SPECIFICATION Spec
CONSTANTS
  Clients = {c1, c2, c3}
  Unix = TRUE
  FlagAfterWake = FALSE
  NoWake = FALSE
  UnwrapOnAccept = FALSE
  CheckEverySecond = TRUE
INVARIANTS TypeOK BoundedLateAccepts
CHECK_DEADLOCK FALSE
