#!/bin/sh
# the thorough tier of every check, one after the other, each on a scratch copy (so /verif can be edited meanwhile)
# usage: thorough_iso.sh [Cnn ...]   -> work/thorough.log
cd /verif
props="$@"
[ -z "$props" ] && props=$(python3 -c "import json;print(' '.join(c['property_id'] for c in json.load(open('/verif/MANIFEST.json'))['checks']))")
for p in $props; do
  s=$(date +%s)
  r=$(VERIF_TIER=thorough timeout 14400 /verif/tools/isolated.py /dev/null $p 2>&1 | tail -1)
  e=$(date +%s)
  echo "$r $((e-s))s" >> /verif/work/thorough.log
done
echo THOROUGH-DONE >> /verif/work/thorough.log
