----------------------------- MODULE HeadSyntax -----------------------------
(***************************************************************************)
(* Reference syntax of an HTTP/1.x request head over an abstract byte      *)
(* alphabet (C02, C10, C16).                                               *)
(*                                                                         *)
(* Symbols:  "l" lower-case letter   "U" upper-case letter   "d" digit     *)
(*           "y" other tchar (!#$%&'*+-.^_`|~)    ":" colon                *)
(*           "s" SP     "h" HTAB     "v" other visible ASCII ("(),/;<=>?@  *)
(*           [\]{}" and the double quote)        "x" a byte >= 0x80        *)
(* A header line is a sequence of symbols (without its CRLF).              *)
(***************************************************************************)
EXTENDS Integers, Sequences, FiniteSets

TChar == {"l", "U", "d", "y"}
OWS == {"s", "h"}
ValueSym == {"l", "U", "d", "y", ":", "s", "h", "v"}

\* index of the first colon (0 if none)
FirstColon(line) ==
    LET I == {i \in 1..Len(line) : line[i] = ":"} IN
    IF I = {} THEN 0 ELSE CHOOSE i \in I : \A j \in I : i <= j

RECURSIVE StripLeft(_)
StripLeft(v) == IF v # <<>> /\ Head(v) \in OWS THEN StripLeft(Tail(v)) ELSE v
RECURSIVE StripRight(_)
StripRight(v) == IF v # <<>> /\ v[Len(v)] \in OWS THEN StripRight(SubSeq(v, 1, Len(v) - 1)) ELSE v
Strip(v) == StripRight(StripLeft(v))

\* C02: field name = everything before the first colon, value = the rest without surrounding OWS
FieldName(line) == SubSeq(line, 1, FirstColon(line) - 1)
FieldValue(line) == Strip(SubSeq(line, FirstColon(line) + 1, Len(line)))

\* classification of one header line (C10, C16)
\*   "ok"    : token ":" value
\*   "r400"  : no colon (C10); empty name, whitespace inside the name / before the colon, or a line
\*             that begins with whitespace (C16)
\*   "close" : a non-ASCII byte anywhere
LineClass(line) ==
    IF \E i \in 1..Len(line) : line[i] = "x" THEN "close"
    ELSE IF FirstColon(line) = 0 THEN "r400"
    ELSE IF FirstColon(line) = 1 THEN "r400"
    ELSE IF \E i \in 1..(FirstColon(line) - 1) : line[i] \notin TChar THEN "r400"
    ELSE "ok"

\* which property owns the rejection of a line
LineWhy(line) ==
    IF FirstColon(line) = 0 THEN "C10"
    ELSE IF \E i \in 1..(FirstColon(line) - 1) : line[i] \in OWS THEN "C16"
    ELSE "C10"

\* the valid header lines with names of 1..nn symbols and raw values of 0..nv symbols
RECURSIVE SeqsUpTo(_, _)
SeqsUpTo(S, n) == IF n = 0 THEN {<<>>} ELSE SeqsUpTo(S, n - 1) \cup {Append(s, x) : s \in {t \in SeqsUpTo(S, n - 1) : Len(t) = n - 1}, x \in S}

ValidLines(nn, nv) ==
    {n \o <<":">> \o v : n \in (SeqsUpTo(TChar, nn) \ {<<>>}), v \in SeqsUpTo(ValueSym, nv)}

(***************************************************************************)
(* C16 / C03: the framing headers of one head, in wire order.  A framing   *)
(* header is "te" (Transfer-Encoding: chunked), "cl:<class>" (a            *)
(* Content-Length whose value is of that class) or "other".  A request is  *)
(* refused when ANY Content-Length value is not a plain decimal number the *)
(* server can represent -- not only the one the body would be framed with, *)
(* and also next to Transfer-Encoding: a parser that goes by another       *)
(* header must not see a different message (F11).  Otherwise               *)
(* Transfer-Encoding frames the body, else the (first) Content-Length.     *)
(***************************************************************************)
CLBad == {"cl:empty", "cl:plus", "cl:alpha", "cl:mixed", "cl:list", "cl:overflow"}
FramingHeader == {"te", "cl:valid", "other"} \cup CLBad
FramingHeads(n) == SeqsUpTo(FramingHeader, n) \ {<<>>}
FramingClass(h) == IF \E i \in 1..Len(h) : h[i] \in CLBad THEN "r400" ELSE "ok"
FramedBy(h) == IF \E i \in 1..Len(h) : h[i] = "te" THEN "chunked"
               ELSE IF \E i \in 1..Len(h) : h[i] = "cl:valid" THEN "cl" ELSE "none"
=============================================================================
