\* C08: 5 never-ending connections against MIN_THREADS = 4; every dispatch/wake interleaving
SPECIFICATION FairSpec
CONSTANTS
  N = 5
  MinThreads = 4
  MaxW = 9
  CanFinish = FALSE
  CanDrop = FALSE
  DevPoolCountsWoken = TRUE
INVARIANTS TypeOK NoStarve AtMostOneWorker WaitingCntOK BoundNotHit

CHECK_DEADLOCK FALSE
