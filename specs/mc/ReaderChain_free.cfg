\* every pipeline of 2..3 messages over the four body kinds; handlers read any prefix and finish at any time
SPECIFICATION FairSpec
CONSTANTS
  Pipelines <- AllPipes
  Mode = "free"
  DevChunkedNoDrain = FALSE
INVARIANTS TypeOK HeadsAtMessageStart BodyPosition ReadBounded DeliveredPrefix
PROPERTIES SuccessorReleased AllDelivered
CHECK_DEADLOCK FALSE
