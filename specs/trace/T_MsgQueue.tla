----------------------------- MODULE T_MsgQueue -----------------------------
(***************************************************************************)
(* Mechanism-level trace specification: the marker events recorded from    *)
(* the real request queue (hook kind 3, `mark!("q.…")` in                  *)
(* src/util/messages_queue.rs) must be a behaviour of mech/MsgQueue.       *)
(* This is the FIDELITY measurement of DESIGN.md 2.1: it shows that the    *)
(* mechanism specification models the code; it never gives a verdict.      *)
(*                                                                         *)
(* Events (prepared by tools/mechtrace.py from a D1 trace; `tick` is       *)
(* virtual time in units of 100 us, `r` the receiver = application thread  *)
(* index + 1):  Reset | call(r, kind) | check(r, len) | giveup(r, timedout,*)
(* len) | ret(r, res) | push(len) | unblock(len).                          *)
(* What is not logged is inferred by TLC: which waiter a notify_one woke,  *)
(* timer expiries (Fire) and spurious wake-ups are silent steps composed   *)
(* in front of the logged step.                                            *)
(***************************************************************************)
EXTENDS MsgQueue, Json, IOUtils

Rec == ndJsonDeserialize(IOEnv.TRACE)

VARIABLE l
tvars == <<vars, l>>

\* register 42 holds the highest line number any branch has reached (silent steps make the
\* diameter useless as a measure)
Reach(n) == TLCSet(42, IF TLCGet(42) < n THEN n ELSE TLCGet(42))

TInit ==
    /\ TLCSet(42, 1)
    /\ l = 1
    /\ prog = [r \in Recv |-> <<>>]
    /\ q = <<>> /\ pushed = 0 /\ unb = 0
    /\ pc = [r \in Recv |-> 1]
    /\ rs = [r \in Recv |-> "idle"]
    /\ tmo = [r \in Recv |-> FALSE]
    /\ wstart = [r \in Recv |-> 0]
    /\ dur = [r \in Recv |-> 0]
    /\ cstart = [r \in Recv |-> 0]
    /\ ret = [r \in Recv |-> <<>>]
    /\ now = 0

E == Rec[l]
Consume == l <= Len(Rec) /\ l' = l + 1

\* virtual time jumps to the instant of the event; nobody who could run earlier is left behind
AdvanceTo(t) ==
    /\ t >= now
    /\ (t > now) => /\ \A r \in Recv : rs[r] # "woken"
                    /\ \A r \in Recv : (rs[r] = "wait" /\ InCall(r) /\ Kind(r) = "timed") => wstart[r] + T >= t
    /\ now' = t
    /\ UNCHANGED <<prog, q, pushed, unb, pc, rs, tmo, wstart, dur, cstart, ret>>

Same == UNCHANGED vars

TReset ==
    /\ Consume /\ E.ev = "Reset"
    /\ prog' = [r \in Recv |-> <<>>]
    /\ q' = <<>> /\ pushed' = 0 /\ unb' = 0
    /\ pc' = [r \in Recv |-> 1]
    /\ rs' = [r \in Recv |-> "idle"]
    /\ tmo' = [r \in Recv |-> FALSE]
    /\ wstart' = [r \in Recv |-> 0]
    /\ dur' = [r \in Recv |-> 0]
    /\ cstart' = [r \in Recv |-> 0]
    /\ ret' = [r \in Recv |-> <<>>]
    /\ now' = 0

\* a receive call starts: its kind becomes the next element of the receiver's program
TCall ==
    /\ Consume /\ E.ev = "call"
    /\ pc[E.r] = Len(prog[E.r]) + 1 /\ rs[E.r] = "idle"
    /\ prog' = [prog EXCEPT ![E.r] = Append(@, E.kind)]
    /\ UNCHANGED <<q, pushed, unb, pc, rs, tmo, wstart, dur, cstart, ret, now>>

\* explicit time step (inserted by tools/mechtrace.py whenever the virtual clock changed)
TTick == Consume /\ E.ev = "tick" /\ AdvanceTo(E.tick)

\* silent steps made explicit by the preparation: the timer of a timed-out waiter, and the candidates
\* of a spurious wake-up (a no-op for receivers that are not waiting)
\* the expiry of a wait_timeout is not logged (it happens in the runtime / kernel): silent step
\* (candidates E.tf = receivers whose next event is a give-up with timedout = 1)
TFire == l <= Len(Rec) /\ l' = l /\ \E i \in 1..Len(E.tf) : InCall(E.tf[i]) /\ Fire(E.tf[i])
TSpur == /\ Consume /\ E.ev = "spur"
         /\ IF InCall(E.r) /\ rs[E.r] = "wait" THEN Spurious(E.r) ELSE Same

TPush ==
    /\ Consume /\ E.ev = "push"
    /\ Push
    /\ Len(q') = E.len

TUnblock ==
    /\ Consume /\ E.ev = "unblock"
    /\ Unblock
    /\ Len(q') = E.len

\* a queue check (top of the loop of pop / pop_timeout, or try_pop): first critical section of a
\* call, or a woken waiter back under the lock
TCheck ==
    /\ Consume /\ E.ev = "check"
    /\ LET r == E.r IN
       /\ InCall(r) /\ Len(q) = E.len
       /\ \/ rs[r] = "idle" /\ Call(r)
          \/ rs[r] = "woken" /\ Wake(r)
       \* a check is never a give-up: if the call ends here it took something (or it is try_recv)
       /\ (pc'[r] = pc[r] + 1) => (Len(q) > 0 \/ Kind(r) = "try")

\* pop_timeout gives up (timed out, or less than Eps left)
TGiveup ==
    /\ Consume /\ E.ev = "giveup"
    /\ LET r == E.r IN
       /\ InCall(r) /\ Kind(r) = "timed" /\ Len(q) = E.len
       /\ rs[r] = "woken" /\ tmo[r] = (E.timedout = 1)
       /\ Wake(r)
       /\ pc'[r] = pc[r] + 1

\* the API-level result of the call that just finished
TRet ==
    /\ Consume /\ E.ev = "ret"
    /\ LET r == E.r IN
       /\ pc[r] = Len(prog[r]) + 1 /\ Len(ret[r]) = Len(prog[r]) /\ Len(ret[r]) >= 1
       /\ LET v == ret[r][Len(ret[r])].v IN
            CASE E.res = "none" -> v = NONE
              [] E.res = "err" -> v = ERR
              [] OTHER -> v >= 1
    /\ Same

\* the register is advanced only by a step that was actually taken (all of its guards held)
TNext == (TReset \/ TCall \/ TTick \/ TFire \/ TSpur \/ TPush \/ TUnblock \/ TCheck \/ TGiveup \/ TRet) /\ Reach(l')

TSpec == TInit /\ [][TNext]_tvars

\* accepted iff some branch consumed every line
Accepted ==
    /\ PrintT(<<"MECH", Len(Rec), TLCGet(42)>>)
    /\ TRUE
=============================================================================
