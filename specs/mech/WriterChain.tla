---------------------------- MODULE WriterChain ----------------------------
(***************************************************************************)
(* Mechanism specification of the per-connection response writer chain     *)
(* (src/util/sequential.rs SequentialWriterBuilder / SequentialWriter,     *)
(*  src/client.rs:27,63,140 and the error paths 189-237,                   *)
(*  src/request.rs respond / into_writer / Drop for Request,               *)
(*  src/response.rs raw_print as far as *when* it writes).                 *)
(*                                                                         *)
(* The connection has parsed N requests; request r owns writer r (created  *)
(* in arrival order by `sink.next()`); optionally the connection thread    *)
(* takes one more writer for an error response (400/408/417) and ends.     *)
(* Every request is finished by its own thread according to a plan:        *)
(*   "small"   respond with a response that fits the 1 KiB shared buffer   *)
(*             (header+body written into the buffer, then flush, then drop)*)
(*   "big"     respond with a body larger than the buffer (header part     *)
(*             buffered, body part bypasses the buffer, flush, drop)       *)
(*   "chunked" like big, in two body parts                                 *)
(*   "unused"  into_writer, dropped without writing a byte                 *)
(*   "raw2f"   into_writer: two writes, flush after each, drop             *)
(*   "raw2n"   into_writer: two writes, never flushed, drop                *)
(*   "raw1l"   into_writer: one big write, flush, drop                     *)
(*   "rawf1"   into_writer: flush first, then a write, flush, drop         *)
(*   "drop"    request dropped: Drop for Request responds 500 = "small"    *)
(* One action per critical section:                                        *)
(*   Turn(r)   = the first write/flush of writer r blocks on its trigger   *)
(*               (recv from the predecessor's on_finish) until the         *)
(*               predecessor writer has been DROPPED                       *)
(*   Write(r)  = one `write` call under the shared BufWriter's mutex       *)
(*   Flush(r)  = one `flush` call under that mutex                         *)
(*   DropW(r)  = Drop for SequentialWriter: (as intended) wait for the own *)
(*               turn, then signal the successor                           *)
(*   Close     = the last owner of the shared buffer goes away: BufWriter  *)
(*               is flushed and the socket's write side is shut down       *)
(*                                                                         *)
(* Named deviations:                                                       *)
(*   DevWriterDropSkipsTurn (F1): DropW signals the successor without      *)
(*        having waited for its own turn (code before the fix).            *)
(*   DevFlushReleases: flush already signals the successor (the seeded     *)
(*        change seeded/C01-1).                                            *)
(*   Dev505OnNextWriter (F5): the 505 path as coded before the fix.        *)
(***************************************************************************)
EXTENDS Integers, Sequences, FiniteSets, TLC

CONSTANTS
    N,                       \* number of parsed requests
    Plans,                   \* set of plans every request may have (all assignments explored)
    ConnErr,                 \* BOOLEAN: the connection thread appends an error response and ends
    DevWriterDropSkipsTurn,
    DevFlushReleases,
    Dev505OnNextWriter       \* F5: the rejected request N stays alive (its writer undropped) until
                             \* the connection thread's write on the NEXT writer has returned

Writers == 1..(N + (IF ConnErr THEN 1 ELSE 0))

\* A plan is a sequence of steps; a write step says how the part relates to the 1 KiB buffer:
\*   <<"w", "s">> small write (goes into the buffer)   <<"w", "b">> big write (flushes the buffer, then bypasses it)
\*   <<"f">> flush
\* The named plans of the header comment:
PSmall   == << <<"w", "s">>, <<"w", "s">>, <<"f">> >>
PDrop    == << <<"w", "s">>, <<"f">> >>
PBig     == << <<"w", "s">>, <<"w", "b">>, <<"f">> >>
PChunked == << <<"w", "s">>, <<"w", "b">>, <<"w", "b">>, <<"w", "s">>, <<"f">> >>
PUnused  == << >>
PRaw2f   == << <<"w", "s">>, <<"f">>, <<"w", "s">>, <<"f">> >>
PRaw2n   == << <<"w", "s">>, <<"w", "b">> >>
PRaw1l   == << <<"w", "b">>, <<"f">> >>
PRawf1   == << <<"f">>, <<"w", "s">>, <<"f">> >>    \* flush before the first write
PErr     == << <<"w", "s">> >>                      \* 400/417: raw_print without flush, then the connection ends
Steps(p) == p

VARIABLES
    plan,     \* plan[r]
    pc,       \* pc[r]: index of the next step of writer r (Len+1: only the drop is left; Len+2: dropped)
    turn,     \* turn[r]: writer r has consumed its trigger (trigger = None in the code)
    fin,      \* fin[r]: writer r has signalled its successor (on_finish sent)
    buf,      \* contents of the shared BufWriter: sequence of <<r, part>>
    out,      \* what has reached the socket, in order: sequence of <<r, part>>
    closed    \* the write side is shut down

vars == <<plan, pc, turn, fin, buf, out, closed>>

PlanOf(r) == IF r > N THEN PErr ELSE plan[r]
NSteps(r) == Len(Steps(PlanOf(r)))

Init ==
    /\ plan \in [1..N -> Plans]
    /\ pc = [r \in Writers |-> 1]
    /\ turn = [r \in Writers |-> FALSE]
    /\ fin = [r \in Writers |-> FALSE]
    /\ buf = <<>> /\ out = <<>> /\ closed = FALSE

\* the predecessor's signal is there (the first writer has no trigger at all)
Released(r) == IF r = 1 THEN TRUE ELSE fin[r - 1]

\* the connection thread creates its error writer only after the N requests exist; it may run at once
CanStep(r) == pc[r] <= NSteps(r)

Turn(r) ==
    /\ CanStep(r) /\ ~turn[r] /\ Released(r)
    /\ turn' = [turn EXCEPT ![r] = TRUE]
    /\ UNCHANGED <<plan, pc, fin, buf, out, closed>>

PartNo(r) == Cardinality({i \in 1..(pc[r] - 1) : Steps(PlanOf(r))[i][1] = "w"}) + 1

Write(r) ==
    /\ CanStep(r) /\ turn[r]
    /\ Steps(PlanOf(r))[pc[r]][1] = "w"
    /\ LET item == <<r, PartNo(r)>> IN
       IF Steps(PlanOf(r))[pc[r]][2] = "b"
       THEN out' = out \o buf \o <<item>> /\ buf' = <<>>
       ELSE \* small: it stays in the buffer, or the buffer was full and is flushed first
            \/ buf' = Append(buf, item) /\ out' = out
            \/ buf # <<>> /\ out' = out \o buf /\ buf' = <<item>>
    /\ pc' = [pc EXCEPT ![r] = @ + 1]
    /\ UNCHANGED <<plan, turn, fin, closed>>

Flush(r) ==
    /\ CanStep(r) /\ turn[r]
    /\ Steps(PlanOf(r))[pc[r]][1] = "f"
    /\ out' = out \o buf /\ buf' = <<>>
    /\ pc' = [pc EXCEPT ![r] = @ + 1]
    /\ fin' = IF DevFlushReleases THEN [fin EXCEPT ![r] = TRUE] ELSE fin
    /\ UNCHANGED <<plan, turn, closed>>

\* Drop for SequentialWriter
DropW(r) ==
    /\ pc[r] = NSteps(r) + 1
    /\ IF DevWriterDropSkipsTurn THEN TRUE ELSE (turn[r] \/ Released(r))
    /\ (Dev505OnNextWriter /\ ConnErr /\ r = N) => pc[N + 1] = NSteps(N + 1) + 2
    /\ pc' = [pc EXCEPT ![r] = @ + 1]
    /\ turn' = [turn EXCEPT ![r] = TRUE]
    /\ fin' = [fin EXCEPT ![r] = TRUE]
    /\ UNCHANGED <<plan, buf, out, closed>>

Dropped(r) == pc[r] = NSteps(r) + 2

\* every writer and the builder are gone: the BufWriter is dropped (flushes) and the socket is shut down
Close ==
    /\ ConnErr /\ ~closed
    /\ \A r \in Writers : Dropped(r)
    /\ out' = out \o buf /\ buf' = <<>> /\ closed' = TRUE
    /\ UNCHANGED <<plan, pc, turn, fin>>

Next == Close \/ \E r \in Writers : Turn(r) \/ Write(r) \/ Flush(r) \/ DropW(r)

Fairness == WF_vars(Close) /\ \A r \in Writers : WF_vars(Turn(r)) /\ WF_vars(Write(r)) /\ WF_vars(Flush(r)) /\ WF_vars(DropW(r))
Spec == Init /\ [][Next]_vars
FairSpec == Spec /\ Fairness

-----------------------------------------------------------------------------
\* what the client will ever see, in order
Wire == out \o buf

Less(a, b) == a[1] < b[1] \/ (a[1] = b[1] /\ a[2] < b[2])

\* C01: responses leave in request order and are never interleaved: the wire is strictly
\* increasing in (request, part)
OrderInv == \A i, j \in 1..Len(Wire) : i < j => Less(Wire[i], Wire[j])

TypeOK == /\ \A r \in Writers : pc[r] \in 1..(NSteps(r) + 2)
          /\ closed \in BOOLEAN

NParts(r) == Cardinality({i \in 1..NSteps(r) : Steps(PlanOf(r))[i][1] = "w"})

AllDone == \A r \in Writers : Dropped(r)

\* C06: once every handler is finished, every request's bytes are on the wire exactly once
Complete == AllDone => \A r \in Writers : \A k \in 1..NParts(r) :
                Cardinality({i \in 1..Len(Wire) : Wire[i] = <<r, k>>}) = 1
\* nothing is ever written twice
NoDup == \A i, j \in 1..Len(Wire) : i # j => Wire[i] # Wire[j]
\* C06 / C10: no writer waits forever: every handler finishes
EveryoneFinishes == <>AllDone
\* C06 "no hold-up": after the last flushing plan has finished, everything before it has reached
\* the socket (only un-flushed raw-writer bytes may stay in the buffer until the connection ends)
\* a plan whose last step is a flush
FlushingPlan(p) == Len(p) > 0 /\ p[Len(p)] = <<"f">>
NoHoldUp == AllDone =>
    \A r \in 1..N : FlushingPlan(plan[r]) => \A k \in 1..NParts(r) : \E i \in 1..Len(out) : out[i] = <<r, k>>
\* C12: with an error response the connection closes after everything was written
ClosedHasAll == closed => (buf = <<>> /\ AllDone)
=============================================================================
