//! concrete scenarios (produced by /verif/tools/concretise.py from TLC-generated abstract scenarios)

use serde::Deserialize;

#[derive(Deserialize, Clone, Debug)]
pub struct Scenario {
    pub id: String,
    pub prop: String,
    pub conns: Vec<Conn>,
    pub apps: Vec<App>,
    #[serde(default = "default_horizon")]
    pub horizon_ns: u64,
    /// judge-level description, copied verbatim into the Scenario event
    pub judge: serde_json::Value,
    /// extra connections opened after the server was dropped (C20)
    #[serde(default)]
    pub connect_after_drop: u32,
    /// "mem" | "tcp" | "unix"
    #[serde(default = "default_transport")]
    pub transport: String,
    /// drop the server when phase 1 opens, while requests may still be held (C20)
    #[serde(default)]
    pub drop_server_early: bool,
    #[serde(default)]
    pub spurious: bool,
    /// requests cannot be identified by their target: the k-th delivered request is message k of
    /// connection 0 (single connection, single receiver)
    #[serde(default)]
    pub by_order: bool,
    /// virtual instants (ns) at which the controller reports the library thread count (C20)
    #[serde(default)]
    pub probes_ns: Vec<u64>,
}

fn default_horizon() -> u64 {
    1_000_000_000
}
fn default_transport() -> String {
    "mem".to_string()
}

#[derive(Deserialize, Clone, Debug)]
pub struct Conn {
    /// the whole byte stream this client may send, hex
    pub stream_hex: String,
    pub msgs: Vec<Msg>,
    pub prog: Vec<CStep>,
    /// bytes of server->client window (None: unbounded)
    #[serde(default)]
    pub window: Option<usize>,
    /// the client never reads (C15)
    #[serde(default)]
    pub no_read: bool,
}

#[derive(Deserialize, Clone, Debug)]
pub struct Msg {
    /// expected head for the fidelity comparison (only for deliverable messages)
    #[serde(default)]
    pub exp: Option<ExpHead>,
    #[serde(default)]
    pub plan: Option<Plan>,
    /// offsets into the stream: start, end of head, end of body
    pub hs: usize,
    pub he: usize,
    pub be: usize,
    /// designated body bytes (what the application must be able to read), hex
    #[serde(default)]
    pub body_hex: String,
    #[serde(default)]
    pub ishead: bool,
}

#[derive(Deserialize, Clone, Debug)]
pub struct ExpHead {
    pub method: String,
    pub url: String,
    pub ver: (u8, u8),
    pub headers: Vec<(String, String)>,
    #[serde(default)]
    pub body_length: Option<u64>,
}

#[derive(Deserialize, Clone, Debug, Default)]
pub struct Plan {
    /// number of as_reader() calls made before reading
    #[serde(default)]
    pub ask: u32,
    /// read sizes; empty = do not read
    #[serde(default)]
    pub read: Vec<usize>,
    /// after `read`, keep reading (with the last size) until a read returns 0
    #[serde(default)]
    pub to_eof: bool,
    /// stop reading once this many bytes have been read in total (read sizes are clipped)
    #[serde(default)]
    pub upto: Option<usize>,
    #[serde(default)]
    pub delay_ns: u64,
    /// do not start before the controller has opened this phase (answer-after-drop, C20)
    #[serde(default)]
    pub wait_phase: u64,
    /// read the whole body with a std helper instead of the read loop: "read_to_end" | "copy"
    #[serde(default)]
    pub read_std: Option<String>,
    /// after the as_reader() calls of `ask`: do not go on (reading, answering) before this phase is open
    #[serde(default)]
    pub hold_phase: u64,
    /// after reading, right before answering: wait for this phase
    #[serde(default)]
    pub ans_phase: u64,
    pub ans: Ans,
}

#[derive(Deserialize, Clone, Debug, Default)]
pub struct Ans {
    /// respond | writer | upgrade | drop | panic | keep
    pub how: String,
    #[serde(default = "default_status")]
    pub status: u16,
    #[serde(default)]
    pub len: usize,
    #[serde(default = "default_true")]
    pub declared: bool,
    #[serde(default)]
    pub thr: Option<usize>,
    /// writer: sizes of the body parts; flush: never | each | last
    #[serde(default)]
    pub parts: Vec<usize>,
    #[serde(default)]
    pub flush: String,
    /// reader piece size for respond (0 = whole)
    #[serde(default)]
    pub piece: usize,
    /// writer: call flush() before the first write
    #[serde(default)]
    pub flush_first: bool,
    /// writer: the first operation on the writer is a write of an empty buffer
    #[serde(default)]
    pub empty_first: bool,
    /// writer: the parts are written with write_vectored (head and body as separate slices)
    #[serde(default)]
    pub vectored: bool,
    /// respond: the body reader fails once this many bytes have been read from it ...
    #[serde(default)]
    pub fail_at: Option<usize>,
    /// ... by panicking instead of returning an error
    #[serde(default)]
    pub fail_panic: bool,
}

fn default_status() -> u16 {
    200
}
fn default_true() -> bool {
    true
}

#[derive(Deserialize, Clone, Debug)]
#[serde(tag = "op")]
pub enum CStep {
    /// send stream[pos..to], cut at the absolute offsets in `cuts`
    #[serde(rename = "send")]
    Send {
        to: usize,
        #[serde(default)]
        cuts: Vec<usize>,
        #[serde(default)]
        gap_ns: u64,
    },
    #[serde(rename = "sleep")]
    Sleep { ns: u64 },
    /// wait until the reader side has seen at least `frames` frames (interim included)
    #[serde(rename = "await")]
    Await { frames: usize },
    #[serde(rename = "half")]
    Half,
    #[serde(rename = "close")]
    Close,
    #[serde(rename = "reset")]
    Reset,
    #[serde(rename = "phase")]
    Phase { k: u64 },
}

#[derive(Deserialize, Clone, Debug)]
pub struct App {
    pub prog: Vec<AStep>,
}

#[derive(Deserialize, Clone, Debug)]
#[serde(tag = "op")]
pub enum AStep {
    /// one receive call: recv | try | timeout | iter
    #[serde(rename = "recv")]
    Recv {
        kind: String,
        #[serde(default)]
        ms: u64,
    },
    /// handle held requests: sel = all | oldest | newest ; mode = inline | spawn
    #[serde(rename = "handle")]
    Handle { sel: String, mode: String },
    #[serde(rename = "repeat")]
    Repeat { n: u32, body: Vec<AStep> },
    /// loop {recv; handle} until a receive fails (recv: Err, others: `max_empty` empty results)
    #[serde(rename = "serve")]
    Serve {
        kind: String,
        #[serde(default)]
        ms: u64,
        mode: String,
        #[serde(default = "one")]
        max_empty: u32,
    },
    /// receive until `k` requests are held (or a receive fails)
    #[serde(rename = "collect")]
    Collect {
        k: usize,
        kind: String,
        #[serde(default)]
        ms: u64,
    },
    #[serde(rename = "sleep")]
    Sleep { ns: u64 },
    #[serde(rename = "unblock")]
    Unblock,
    /// D1 only: every condvar wait in progress returns spuriously
    #[serde(rename = "spurious")]
    Spurious,
    #[serde(rename = "phase")]
    Phase { k: u64 },
}

fn one() -> u32 {
    1
}

pub fn unhex(s: &str) -> Vec<u8> {
    let b = s.as_bytes();
    let mut out = Vec::with_capacity(b.len() / 2);
    let v = |c: u8| -> u8 {
        match c {
            b'0'..=b'9' => c - b'0',
            b'a'..=b'f' => c - b'a' + 10,
            b'A'..=b'F' => c - b'A' + 10,
            _ => 0,
        }
    };
    let mut i = 0;
    while i + 1 < b.len() {
        out.push(v(b[i]) * 16 + v(b[i + 1]));
        i += 2;
    }
    out
}
