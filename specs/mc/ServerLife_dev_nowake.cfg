\* deviation: drop does not wake the accept thread
SPECIFICATION Spec
CONSTANTS
  Clients = {c1, c2, c3}
  Unix = TRUE
  FlagAfterWake = FALSE
  NoWake = TRUE
  UnwrapOnAccept = FALSE
  CheckEverySecond = FALSE
INVARIANTS TypeOK NeverParkedAfterDrop
CHECK_DEADLOCK FALSE
