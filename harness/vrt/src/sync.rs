//! mirror of the parts of `std::sync` that tiny-http uses

use crate::{cur, cur_or_panic, new_obj};
use std::fmt;
use std::ops::{Deref, DerefMut};
use std::sync::atomic::{AtomicBool, Ordering};
use std::sync::{Mutex as SMutex, MutexGuard as SGuard};
use std::time::Duration;

pub use std::sync::Arc;

pub struct PoisonError<G> {
    _g: G,
}

impl<G> fmt::Debug for PoisonError<G> {
    fn fmt(&self, f: &mut fmt::Formatter<'_>) -> fmt::Result {
        f.write_str("PoisonError { .. }")
    }
}

impl<G> fmt::Display for PoisonError<G> {
    fn fmt(&self, f: &mut fmt::Formatter<'_>) -> fmt::Result {
        f.write_str("poisoned lock")
    }
}

pub type LockResult<G> = Result<G, PoisonError<G>>;

pub struct Mutex<T> {
    id: usize,
    held: AtomicBool,
    data: SMutex<T>,
}

pub struct MutexGuard<'a, T> {
    m: &'a Mutex<T>,
    g: Option<SGuard<'a, T>>,
    /// released as part of Condvar::wait: releasing and starting to wait is one step
    quiet: bool,
}

impl<T> Mutex<T> {
    pub fn new(v: T) -> Mutex<T> {
        Mutex {
            id: new_obj(),
            held: AtomicBool::new(false),
            data: SMutex::new(v),
        }
    }

    fn acquire(&self, with_yield: bool) -> MutexGuard<'_, T> {
        let (rt, me) = cur_or_panic("Mutex::lock");
        if with_yield {
            rt.yield_now(me);
        }
        loop {
            if !self.held.swap(true, Ordering::SeqCst) {
                break;
            }
            rt.block(me, self.id, "mutex", None);
        }
        let g = match self.data.lock() {
            Ok(g) => g,
            Err(e) => e.into_inner(),
        };
        MutexGuard { m: self, g: Some(g), quiet: false }
    }

    pub fn lock(&self) -> LockResult<MutexGuard<'_, T>> {
        Ok(self.acquire(true))
    }
}

impl<T> Deref for MutexGuard<'_, T> {
    type Target = T;
    fn deref(&self) -> &T {
        self.g.as_ref().unwrap()
    }
}

impl<T> DerefMut for MutexGuard<'_, T> {
    fn deref_mut(&mut self) -> &mut T {
        self.g.as_mut().unwrap()
    }
}

impl<T> Drop for MutexGuard<'_, T> {
    fn drop(&mut self) {
        self.g = None;
        self.m.held.store(false, Ordering::SeqCst);
        if let Some((rt, me)) = cur() {
            rt.wake_obj(self.m.id);
            // scheduling point: what a thread does right after leaving a critical section (an atomic counter
            // updated outside the lock, say) can be overtaken by another thread that takes the lock now
            if !self.quiet && !std::thread::panicking() {
                rt.yield_now(me);
            }
        }
    }
}

#[derive(Clone, Copy, Debug, PartialEq, Eq)]
pub struct WaitTimeoutResult(bool);

impl WaitTimeoutResult {
    pub fn timed_out(&self) -> bool {
        self.0
    }
}

pub struct Condvar {
    id: usize,
}

impl Default for Condvar {
    fn default() -> Self {
        Condvar::new()
    }
}

impl Condvar {
    pub fn new() -> Condvar {
        Condvar { id: new_obj() }
    }

    fn wait_impl<'a, T>(&self, guard: MutexGuard<'a, T>, dur: Option<Duration>) -> (MutexGuard<'a, T>, bool) {
        let (rt, me) = cur_or_panic("Condvar::wait");
        let m = guard.m;
        let deadline = dur.map(|d| rt.now().saturating_add(d.as_nanos() as u64));
        // release the mutex and start waiting atomically (we hold the baton)
        let mut guard = guard;
        guard.quiet = true;
        drop(guard);
        let fired = rt.block_cv(me, self.id, deadline);
        // re-acquire; a woken or timed-out waiter still has to win the mutex
        let g = m.acquire(false);
        (g, fired)
    }

    pub fn wait<'a, T>(&self, guard: MutexGuard<'a, T>) -> LockResult<MutexGuard<'a, T>> {
        Ok(self.wait_impl(guard, None).0)
    }

    pub fn wait_timeout<'a, T>(
        &self,
        guard: MutexGuard<'a, T>,
        dur: Duration,
    ) -> LockResult<(MutexGuard<'a, T>, WaitTimeoutResult)> {
        let (g, fired) = self.wait_impl(guard, Some(dur));
        Ok((g, WaitTimeoutResult(fired)))
    }

    pub fn notify_one(&self) {
        if let Some((rt, _)) = cur() {
            rt.notify_one(self.id);
        }
    }

    pub fn notify_all(&self) {
        if let Some((rt, _)) = cur() {
            rt.notify_all(self.id);
        }
    }
}

pub mod mpsc {
    use crate::{cur, cur_or_panic, new_obj};
    use std::collections::VecDeque;
    use std::fmt;
    use std::sync::atomic::{AtomicBool, AtomicUsize, Ordering};
    use std::sync::{Arc, Mutex as SMutex};

    struct Chan<T> {
        id: usize,
        q: SMutex<VecDeque<T>>,
        senders: AtomicUsize,
        rx_alive: AtomicBool,
    }

    pub struct Sender<T> {
        c: Arc<Chan<T>>,
    }

    pub struct Receiver<T> {
        c: Arc<Chan<T>>,
    }

    #[derive(Debug, Clone, Copy, PartialEq, Eq)]
    pub struct RecvError;

    impl fmt::Display for RecvError {
        fn fmt(&self, f: &mut fmt::Formatter<'_>) -> fmt::Result {
            f.write_str("receiving on a closed channel")
        }
    }

    impl std::error::Error for RecvError {}

    pub struct SendError<T>(pub T);

    impl<T> fmt::Debug for SendError<T> {
        fn fmt(&self, f: &mut fmt::Formatter<'_>) -> fmt::Result {
            f.write_str("SendError { .. }")
        }
    }

    impl<T> fmt::Display for SendError<T> {
        fn fmt(&self, f: &mut fmt::Formatter<'_>) -> fmt::Result {
            f.write_str("sending on a closed channel")
        }
    }

    pub fn channel<T>() -> (Sender<T>, Receiver<T>) {
        let c = Arc::new(Chan {
            id: new_obj(),
            q: SMutex::new(VecDeque::new()),
            senders: AtomicUsize::new(1),
            rx_alive: AtomicBool::new(true),
        });
        (Sender { c: c.clone() }, Receiver { c })
    }

    impl<T> Sender<T> {
        pub fn send(&self, v: T) -> Result<(), SendError<T>> {
            if !self.c.rx_alive.load(Ordering::SeqCst) {
                return Err(SendError(v));
            }
            self.c.q.lock().unwrap().push_back(v);
            if let Some((rt, _)) = cur() {
                rt.wake_obj(self.c.id);
            }
            Ok(())
        }
    }

    impl<T> Clone for Sender<T> {
        fn clone(&self) -> Self {
            self.c.senders.fetch_add(1, Ordering::SeqCst);
            Sender { c: self.c.clone() }
        }
    }

    impl<T> Drop for Sender<T> {
        fn drop(&mut self) {
            if self.c.senders.fetch_sub(1, Ordering::SeqCst) == 1 {
                if let Some((rt, _)) = cur() {
                    rt.wake_obj(self.c.id);
                }
            }
        }
    }

    impl<T> Receiver<T> {
        pub fn recv(&self) -> Result<T, RecvError> {
            let (rt, me) = cur_or_panic("Receiver::recv");
            rt.yield_now(me);
            loop {
                if let Some(v) = self.c.q.lock().unwrap().pop_front() {
                    return Ok(v);
                }
                if self.c.senders.load(Ordering::SeqCst) == 0 {
                    return Err(RecvError);
                }
                rt.block(me, self.c.id, "channel", None);
            }
        }

        pub fn try_recv(&self) -> Option<T> {
            self.c.q.lock().unwrap().pop_front()
        }
    }

    impl<T> Drop for Receiver<T> {
        fn drop(&mut self) {
            self.c.rx_alive.store(false, Ordering::SeqCst);
            // like std: messages still queued are discarded when the receiver goes away
            let pending: Vec<T> = self.c.q.lock().unwrap().drain(..).collect();
            drop(pending);
        }
    }
}
