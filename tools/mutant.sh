#!/bin/sh
# usage: mutant.sh <patch.diff> <prop> [<prop>...] : apply a seeded change to /repo, run the checks, undo it
patch="$1"; shift
cd /repo || exit 2
if [ -n "$(git status --porcelain)" ]; then echo "repo not clean"; exit 2; fi
git apply "$patch" || { echo "patch does not apply"; exit 2; }
cd /verif
for p in "$@"; do
  ./check "$p" > /verif/work/mut_$p.log 2>&1; rc=$?
  echo "== $p exit=$rc"; grep -E "^(VIOLATION|KNOWN|TOOL-ERROR|\[done\])" /verif/work/mut_$p.log | cut -c1-160 | head -${MUT_LINES:-6}
done
git -C /repo checkout -- .
