//! mirror of the parts of `std::thread` that tiny-http uses (`spawn`, `sleep`, `JoinHandle`)

use crate::{cur_or_panic, Kind, Rt};
use std::sync::{Arc, Mutex as SMutex};
use std::time::Duration;

pub struct JoinHandle<T> {
    rt: Arc<Rt>,
    tid: usize,
    slot: Arc<SMutex<Option<T>>>,
}

impl JoinHandle<()> {
    pub(crate) fn new_unit(rt: Arc<Rt>, tid: usize) -> JoinHandle<()> {
        JoinHandle {
            rt,
            tid,
            slot: Arc::new(SMutex::new(Some(()))),
        }
    }
}

impl<T> JoinHandle<T> {
    /// Err(()) if the thread panicked
    pub fn join(self) -> Result<T, Box<dyn std::any::Any + Send + 'static>> {
        let (rt, me) = cur_or_panic("JoinHandle::join");
        let obj = self.rt.thread_obj(self.tid);
        while !self.rt.is_finished(self.tid) {
            rt.block(me, obj, "join", None);
        }
        match self.slot.lock().unwrap().take() {
            Some(v) => Ok(v),
            None => Err(Box::new("thread panicked")),
        }
    }

    pub fn is_finished(&self) -> bool {
        self.rt.is_finished(self.tid)
    }
}

/// library threads: named `lib:<n>` in spawn order
pub fn spawn<F, T>(f: F) -> JoinHandle<T>
where
    F: FnOnce() -> T + Send + 'static,
    T: Send + 'static,
{
    let (rt, me) = cur_or_panic("thread::spawn");
    let (tid, p) = rt.register(None, Kind::Lib);
    let slot: Arc<SMutex<Option<T>>> = Arc::new(SMutex::new(None));
    let s2 = slot.clone();
    rt.start_os_thread(tid, p, move || {
        let v = f();
        *s2.lock().unwrap() = Some(v);
    });
    let h = JoinHandle {
        rt: rt.clone(),
        tid,
        slot,
    };
    // scheduling point: the new thread may run first
    rt.yield_now(me);
    h
}

pub fn sleep(d: Duration) {
    let (rt, me) = cur_or_panic("thread::sleep");
    let deadline = rt.now() + d.as_nanos() as u64;
    let obj = crate::new_obj();
    loop {
        if rt.now() >= deadline {
            return;
        }
        rt.block(me, obj, "sleep", Some(deadline));
    }
}
