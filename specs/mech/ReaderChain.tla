---------------------------- MODULE ReaderChain ----------------------------
(***************************************************************************)
(* Mechanism specification of the per-connection request reader chain      *)
(* (src/util/sequential.rs SequentialReaderBuilder / SequentialReader,     *)
(*  src/client.rs:139-144 (the swap of next_header_source),                *)
(*  src/request.rs:186-227 (which reader a request gets),                  *)
(*  src/util/equal_reader.rs, src/util/fused_reader.rs, DrainOnDrop).      *)
(*                                                                         *)
(* The client has sent a pipeline of messages.  The single BufReader of    *)
(* the connection travels: the connection thread holds it while it parses  *)
(* a head; a request whose body is not buffered ("large": Content-Length   *)
(* above 1024 or with Expect: 100-continue; "chunked") takes it along and  *)
(* gives it back when (a) the application reads the body to its end (the   *)
(* FusedReader drops its inner reader at EOF) or (b) the request is        *)
(* finished (respond / drop: the rest of the body is discarded first).     *)
(*                                                                         *)
(* The wire is a sequence of units: <<"H", i>> head of message i,          *)
(* <<"B", i, k>> k-th body unit, <<"Z", i>> the last-chunk marker of a     *)
(* chunked body.  One action per hand-off:                                 *)
(*   ReadHead   = connection thread: read_next_line..new_request..push     *)
(*   AppRead(r) = one `read` of the application on request r's body        *)
(*   Finish(r)  = the Request object goes away (answered or dropped)       *)
(*                                                                         *)
(* Named deviation DevChunkedNoDrain (F4): an unread chunked body is not   *)
(* discarded when the request is finished (code before the fix).           *)
(***************************************************************************)
EXTENDS Integers, Sequences, FiniteSets, TLC

CONSTANTS
    Pipelines,        \* set of pipelines; a pipeline is a sequence of body kinds in {"none","small","large","chunked"}
    Mode,             \* "free": handlers read and finish whenever they like (every consumption prefix)
                      \* "hold": handlers never finish a request (C11: read-ahead must not need answers)
    DevChunkedNoDrain

BodyLen(k) == CASE k = "none" -> 0 [] k = "small" -> 1 [] k = "large" -> 2 [] k = "chunked" -> 2

RECURSIVE WireFrom(_, _)
WireFrom(p, i) ==
    IF i > Len(p) THEN <<>>
    ELSE <<<<"H", i>>>> \o [k \in 1..BodyLen(p[i]) |-> <<"B", i, k>>]
         \o (IF p[i] = "chunked" THEN <<<<"Z", i>>>> ELSE <<>>) \o WireFrom(p, i + 1)

VARIABLES
    pipe,       \* the pipeline of this behaviour
    rp,         \* index of the next unit the BufReader will hand out
    holder,     \* 0: the connection thread holds the BufReader; r > 0: request r holds it
    delivered,  \* requests handed to the application
    rd,         \* rd[r]: body units the application has read from request r
    eof,        \* eof[r]: the application saw end-of-stream on r's body
    fin,        \* fin[r]: request r is finished (object dropped)
    bad,        \* the connection thread found something that is not a head where a head must start
    cdone       \* the connection thread has nothing more to parse

vars == <<pipe, rp, holder, delivered, rd, eof, fin, bad, cdone>>

Wire == WireFrom(pipe, 1)
NMsg == Len(pipe)

Init ==
    /\ pipe \in Pipelines
    /\ rp = 1 /\ holder = 0 /\ delivered = {} /\ bad = FALSE /\ cdone = FALSE
    /\ rd = [r \in 1..3 |-> 0] /\ eof = [r \in 1..3 |-> FALSE] /\ fin = [r \in 1..3 |-> FALSE]

ReadHead ==
    /\ ~cdone /\ holder = 0
    /\ IF rp > Len(Wire)
       THEN cdone' = TRUE /\ UNCHANGED <<rp, holder, delivered, bad>>
       ELSE LET u == Wire[rp] IN
            IF u[1] # "H"
            THEN \* unread body bytes are parsed as a request line: 400, the connection ends
                 /\ bad' = TRUE /\ cdone' = TRUE /\ UNCHANGED <<rp, holder, delivered>>
            ELSE LET i == u[2]  k == pipe[i] IN
                 /\ delivered' = delivered \cup {i}
                 /\ bad' = bad /\ cdone' = cdone
                 /\ IF k \in {"none", "small"}
                    THEN \* the connection thread reads a small body itself and keeps the reader
                         rp' = rp + 1 + BodyLen(k) /\ holder' = 0
                    ELSE rp' = rp + 1 /\ holder' = i
    /\ UNCHANGED <<pipe, rd, eof, fin>>

Buffered(r) == pipe[r] \in {"none", "small"}

AppRead(r) ==
    /\ r \in delivered /\ ~fin[r] /\ ~eof[r]
    /\ IF Buffered(r)
       THEN \* served from the request's own buffer (Cursor / io::empty): no effect on the stream
            /\ IF rd[r] < BodyLen(pipe[r])
               THEN rd' = [rd EXCEPT ![r] = @ + 1] /\ eof' = eof
               ELSE eof' = [eof EXCEPT ![r] = TRUE] /\ rd' = rd
            /\ UNCHANGED <<rp, holder>>
       ELSE /\ holder = r
            /\ IF rd[r] < BodyLen(pipe[r])
               THEN rp' = rp + 1 /\ rd' = [rd EXCEPT ![r] = @ + 1] /\ eof' = eof /\ holder' = holder
               ELSE \* the read that returns 0: the chunk decoder consumes the last-chunk marker;
                    \* the FusedReader then drops the inner reader, which releases the BufReader
                    /\ rp' = IF pipe[r] = "chunked" THEN rp + 1 ELSE rp
                    /\ eof' = [eof EXCEPT ![r] = TRUE] /\ rd' = rd
                    /\ holder' = 0
    /\ UNCHANGED <<pipe, delivered, fin, bad, cdone>>

Finish(r) ==
    /\ Mode = "free"
    /\ r \in delivered /\ ~fin[r]
    /\ fin' = [fin EXCEPT ![r] = TRUE]
    /\ IF holder = r
       THEN \* discard what is left of the body, then hand the BufReader on
            /\ holder' = 0
            /\ rp' = IF pipe[r] = "chunked"
                     THEN (IF DevChunkedNoDrain THEN rp ELSE rp + (BodyLen(pipe[r]) - rd[r]) + 1)
                     ELSE rp + (BodyLen(pipe[r]) - rd[r])
       ELSE UNCHANGED <<holder, rp>>
    /\ UNCHANGED <<pipe, delivered, rd, eof, bad, cdone>>

Next == ReadHead \/ \E r \in 1..3 : AppRead(r) \/ Finish(r)

Spec == Init /\ [][Next]_vars
FairSpec == Spec /\ WF_vars(ReadHead) /\ \A r \in 1..3 : WF_vars(AppRead(r)) /\ WF_vars(Finish(r))

-----------------------------------------------------------------------------
TypeOK == /\ holder \in 0..3 /\ rp \in 1..(Len(Wire) + 1) /\ delivered \subseteq 1..NMsg

\* C09: every request is parsed starting at the first unit after its predecessor's body
HeadsAtMessageStart == ~bad
\* C03: while a request holds the reader, the next unit of the stream is the next unit of ITS body
\* (or its last-chunk marker): the application can never be handed a byte of a later message
BodyPosition ==
    (holder # 0) =>
        /\ holder \in delivered /\ ~fin[holder] /\ ~eof[holder] /\ ~Buffered(holder)
        /\ IF rd[holder] < BodyLen(pipe[holder])
           THEN rp <= Len(Wire) /\ Wire[rp] = <<"B", holder, rd[holder] + 1>>
           ELSE IF pipe[holder] = "chunked" THEN rp <= Len(Wire) /\ Wire[rp] = <<"Z", holder>> ELSE TRUE
\* C03: never more than the designated body
ReadBounded == \A r \in 1..NMsg : rd[r] <= BodyLen(pipe[r])
\* C07 / C09: requests are delivered in wire order, each once (delivered is a prefix)
DeliveredPrefix == \A i \in delivered : \A j \in 1..i : j \in delivered

\* C11 (a): in a pipeline of absent / small bodies every request becomes available although none is
\* ever answered (Mode = "hold")
SmallOnly(i) == \A j \in 1..i : Buffered(j)
ReadAhead == \A i \in 1..3 : (i <= NMsg /\ SmallOnly(i)) ~> (i \in delivered)
\* C11 (b): a large / chunked body delays its successors only until it has been read to its end or
\* the request is finished
SuccessorReleased ==
    \A i \in 1..2 : (i + 1 <= NMsg /\ i \in delivered /\ (eof[i] \/ fin[i]) /\ \A j \in 1..(i - 1) : (Buffered(j) \/ eof[j] \/ fin[j]))
                        ~> ((i + 1) \in delivered)
\* everything sent is eventually delivered when handlers read to EOF or finish (free mode, fair)
AllDelivered == <>(delivered = 1..NMsg)
=============================================================================
