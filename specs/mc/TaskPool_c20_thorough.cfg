\* C20: connections end, idle workers time out, the pool may be dropped at any moment (scaled: MIN = 2, 4 connections)
SPECIFICATION FairSpec
CONSTANTS
  N = 4
  MinThreads = 2
  MaxW = 6
  CanFinish = TRUE
  CanDrop = TRUE
  DevPoolCountsWoken = FALSE
INVARIANTS TypeOK NoStarve AtMostOneWorker WaitingCntOK BoundNotHit Reclaimed
PROPERTIES EveryConnServed EventuallyReclaimed DroppedAllGone
CHECK_DEADLOCK FALSE
