\* 2 receivers x every program assignment, 2 items, 1 unblock; T = 4 ticks, Eps = 2
SPECIFICATION FairSpec
CONSTANTS
  Recv = {r1, r2}
  Progs <- ProgsF2
  NItems = 2
  NUnblock = 1
  T = 4
  Eps = 2
  MaxNow = 9
  AllowSpurious = FALSE
  DevPopTimeoutNoRecheck = TRUE
INVARIANTS TypeOK NoDup NoLoss Fifo NoLostWakeup ReleasesBounded TokenConservation TimedBounds TimedNeverLate

CHECK_DEADLOCK FALSE
