//! Scenario interpreter: client programs, application (receiver/handler) programs, event logging.
//! Runs inside the world (D1 runtime threads or D2 real threads).

use crate::httpc;
use crate::scenario::*;
use crate::world::{self, Addr, Cli, Condvar, Mutex};
use std::io::{Read, Write};
use std::sync::Arc;
use tiny_http::{Header, Request, Response, Server, StatusCode};

/// client ends of the connections of the execution in progress (read by the D1 controller)
pub static REGISTRY: std::sync::Mutex<Vec<(usize, Cli)>> = std::sync::Mutex::new(Vec::new());

thread_local! {
    static IN_LIB: std::cell::Cell<u32> = std::cell::Cell::new(0);
}

/// is the current (harness) thread executing a call into the library?
pub fn in_lib() -> bool {
    IN_LIB.with(|c| c.get() > 0)
}

/// run a call into the library; a panic inside it is attributed to the library (C14)
fn lib<T>(f: impl FnOnce() -> T) -> T {
    IN_LIB.with(|c| c.set(c.get() + 1));
    struct Leave;
    impl Drop for Leave {
        fn drop(&mut self) {
            if !std::thread::panicking() {
                IN_LIB.with(|c| c.set(c.get().saturating_sub(1)));
            }
        }
    }
    let _l = Leave;
    f()
}

pub fn js(s: &str) -> String {
    let mut o = String::with_capacity(s.len() + 2);
    o.push('"');
    for c in s.chars() {
        match c {
            '"' => o.push_str("\\\""),
            '\\' => o.push_str("\\\\"),
            '\n' => o.push_str("\\n"),
            '\r' => o.push_str("\\r"),
            '\t' => o.push_str("\\t"),
            c if (c as u32) < 0x20 || (c as u32) > 0x7e => o.push_str(&format!("\\u{:04x}", c as u32)),
            c => o.push(c),
        }
    }
    o.push('"');
    o
}

/// deterministic response body for request (c, m)
pub fn resp_body(c: usize, m: usize, len: usize) -> Vec<u8> {
    let pat = format!("c{}m{};", c, m).into_bytes();
    (0..len).map(|i| pat[i % pat.len()]).collect()
}

struct Shared {
    sc: Scenario,
    streams: Vec<Vec<u8>>,
    bodies: Vec<Vec<Vec<u8>>>,
    /// per connection: number of frames seen by the reader
    seen: Vec<Mutex<usize>>,
    seen_cv: Vec<Condvar>,
    kept: Mutex<Vec<Request>>,
    order_ctr: std::sync::atomic::AtomicUsize,
    handlers: Mutex<Vec<world::Join>>,
}

fn parse_id(url: &str) -> (i64, i64) {
    // "/c<c>m<m>..." -> (c, m)
    let b = url.as_bytes();
    if b.len() < 5 || b[0] != b'/' || b[1] != b'c' {
        return (-1, -1);
    }
    let mut i = 2;
    let mut c: i64 = 0;
    let mut nd = 0;
    while i < b.len() && b[i].is_ascii_digit() {
        c = c * 10 + (b[i] - b'0') as i64;
        i += 1;
        nd += 1;
    }
    if nd == 0 || i >= b.len() || b[i] != b'm' {
        return (-1, -1);
    }
    i += 1;
    let mut m: i64 = 0;
    nd = 0;
    while i < b.len() && b[i].is_ascii_digit() {
        m = m * 10 + (b[i] - b'0') as i64;
        i += 1;
        nd += 1;
    }
    if nd == 0 {
        return (-1, -1);
    }
    (c, m)
}

fn head_matches(rq: &Request, e: &ExpHead) -> bool {
    if rq.method().as_str() != e.method {
        return false;
    }
    if rq.url() != e.url {
        return false;
    }
    let v = rq.http_version();
    if (v.0, v.1) != e.ver {
        return false;
    }
    let hs = rq.headers();
    if hs.len() != e.headers.len() {
        return false;
    }
    for (h, (n, val)) in hs.iter().zip(e.headers.iter()) {
        if !h.field.as_str().as_str().eq_ignore_ascii_case(n) {
            return false;
        }
        if h.value.as_str() != val {
            return false;
        }
    }
    if rq.body_length().map(|x| x as u64) != e.body_length {
        return false;
    }
    true
}

// ------------------------------------------------------------------------------------------------
// client side

fn client_reader(sh: Arc<Shared>, c: usize, cli: Cli) {
    let heads: Vec<bool> = sh.sc.conns[c].msgs.iter().map(|m| m.ishead).collect();
    let mut p = httpc::Parser::new(heads);
    for (m, msg) in sh.sc.conns[c].msgs.iter().enumerate() {
        p.head_by_xid.insert(format!("{}.{}", c, m), msg.ishead);
    }
    let mut buf = vec![0u8; 8192];
    let mut k = 0usize;
    let emit = |k: &mut usize, f: &httpc::Frame| {
        let (oc, om) = match f.header("X-Id") {
            Some(v) => {
                let mut it = v.split('.');
                let a = it.next().and_then(|x| x.parse::<i64>().ok()).unwrap_or(-1);
                let b = it.next().and_then(|x| x.parse::<i64>().ok()).unwrap_or(-1);
                (a, b)
            }
            None => (-1, -1),
        };
        let bm = if oc >= 0 && om >= 0 {
            f.body == resp_body(oc as usize, om as usize, f.body.len())
        } else {
            true
        };
        world::log(format!(
            "\"ev\":\"CFrame\",\"c\":{},\"k\":{},\"st\":{},\"interim\":{},\"oc\":{},\"om\":{},\"wf\":{},\"why\":{},\"bm\":{},\"blen\":{},\"wire\":{},\"delim\":{},\"ver\":{}",
            c,
            *k,
            f.status,
            f.interim(),
            oc,
            om,
            f.wellformed,
            js(f.why),
            bm,
            f.body.len(),
            f.wire_body_bytes,
            js(f.delim),
            f.ver.0 as u32 * 10 + f.ver.1 as u32
        ));
        *k += 1;
        let mut s = sh.seen[c].lock().unwrap();
        *s += 1;
        sh.seen_cv[c].notify_all();
    };
    loop {
        match cli.read(&mut buf) {
            Ok(0) => {
                let (fs, junk) = p.finish();
                for f in fs.iter() {
                    emit(&mut k, f);
                }
                if junk > 0 {
                    world::log(format!("\"ev\":\"CJunk\",\"c\":{},\"n\":{}", c, junk));
                }
                world::log(format!("\"ev\":\"CEof\",\"c\":{},\"opaque\":{}", c, p.opaque.len()));
                break;
            }
            Ok(n) => {
                for f in p.feed(&buf[..n]).iter() {
                    emit(&mut k, f);
                }
            }
            Err(e) => {
                let (fs, junk) = p.finish();
                for f in fs.iter() {
                    emit(&mut k, f);
                }
                if junk > 0 {
                    world::log(format!("\"ev\":\"CJunk\",\"c\":{},\"n\":{}", c, junk));
                }
                world::log(format!("\"ev\":\"CErr\",\"c\":{},\"kind\":{}", c, js(&format!("{:?}", e.kind()))));
                break;
            }
        }
    }
    // wake anybody awaiting frames that will never come
    let mut s = sh.seen[c].lock().unwrap();
    *s += 1_000_000;
    sh.seen_cv[c].notify_all();
}

fn client_writer(sh: Arc<Shared>, c: usize, addr: Addr) {
    let conn = &sh.sc.conns[c];
    // leading pauses happen before the connection is opened
    let mut first = 0;
    while let Some(CStep::Sleep { ns }) = conn.prog.get(first) {
        world::sleep_ns(*ns);
        first += 1;
    }
    let cli = match Cli::connect(&addr) {
        Ok(x) => x,
        Err(e) => {
            world::log(format!("\"ev\":\"COpen\",\"c\":{},\"ok\":false,\"kind\":{}", c, js(&format!("{:?}", e.kind()))));
            return;
        }
    };
    if conn.window.is_some() {
        cli.set_window(conn.window);
    }
    REGISTRY.lock().unwrap().push((c, cli.try_clone()));
    world::log(format!(
        "\"ev\":\"COpen\",\"c\":{},\"ok\":true,\"local\":{}",
        c,
        js(&cli.local_addr_string().unwrap_or_default())
    ));
    let rd = if conn.no_read {
        None
    } else {
        let sh2 = sh.clone();
        let cl2 = cli.try_clone();
        Some(world::spawn(&format!("cr:{}", c), move || client_reader(sh2, c, cl2)))
    };
    let stream = &sh.streams[c];
    let mut pos = 0usize;
    let mut closed = false;
    for st in conn.prog.iter().skip(first) {
        match st {
            CStep::Send { to, cuts, gap_ns } => {
                let to = (*to).min(stream.len());
                let mut pts: Vec<usize> = cuts.iter().copied().filter(|x| *x > pos && *x < to).collect();
                pts.sort();
                pts.dedup();
                pts.push(to);
                for p in pts {
                    if p <= pos {
                        continue;
                    }
                    // the event precedes the effect (DESIGN.md A.2)
                    world::log(format!("\"ev\":\"CSend\",\"c\":{},\"to\":{}", c, p));
                    if let Err(e) = cli.write_seg(&stream[pos..p]) {
                        world::log(format!("\"ev\":\"CSendErr\",\"c\":{},\"kind\":{}", c, js(&format!("{:?}", e.kind()))));
                    }
                    pos = p;
                    if *gap_ns > 0 {
                        world::sleep_ns(*gap_ns);
                    }
                }
            }
            CStep::Sleep { ns } => world::sleep_ns(*ns),
            CStep::Await { frames } => {
                let mut s = sh.seen[c].lock().unwrap();
                while *s < *frames {
                    s = sh.seen_cv[c].wait(s).unwrap();
                }
            }
            CStep::Half => {
                world::log(format!("\"ev\":\"CHalf\",\"c\":{}", c));
                cli.half_close();
                closed = true;
            }
            CStep::Close => {
                world::log(format!("\"ev\":\"CClose\",\"c\":{}", c));
                cli.close();
                closed = true;
            }
            CStep::Reset => {
                world::log(format!("\"ev\":\"CReset\",\"c\":{}", c));
                cli.reset();
                closed = true;
            }
            CStep::Phase { k } => world::wait_phase(*k),
        }
    }
    // teardown: the client stops sending once phase 1 opens
    world::wait_phase(1);
    if !closed {
        world::log(format!("\"ev\":\"CHalf\",\"c\":{}", c));
        cli.half_close();
    }
    world::wait_phase(2);
    let thr = cli.server_threads();
    if !thr.is_empty() {
        let l: Vec<String> = thr.iter().map(|s| js(s)).collect();
        world::log(format!("\"ev\":\"ConnThreads\",\"c\":{},\"n\":{},\"threads\":[{}]", c, thr.len(), l.join(",")));
    }
    if conn.no_read {
        cli.close();
    }
    if let Some(r) = rd {
        r.join();
    }
}

// ------------------------------------------------------------------------------------------------
// application side

struct PieceReader {
    data: Vec<u8>,
    pos: usize,
    piece: usize,
    /// planned failure of the application's body reader after this many bytes
    fail_at: Option<usize>,
    fail_panic: bool,
}

impl Read for PieceReader {
    fn read(&mut self, buf: &mut [u8]) -> std::io::Result<usize> {
        let mut left = self.data.len() - self.pos;
        if let Some(k) = self.fail_at {
            if self.pos >= k && !buf.is_empty() {
                if self.fail_panic {
                    panic!("planned handler panic (response body reader)");
                }
                return Err(std::io::Error::new(std::io::ErrorKind::Other, "planned body failure"));
            }
            left = left.min(k - self.pos);
        }
        let n = left.min(buf.len()).min(if self.piece == 0 { usize::MAX } else { self.piece });
        buf[..n].copy_from_slice(&self.data[self.pos..self.pos + n]);
        self.pos += n;
        Ok(n)
    }
}

fn ekind(e: &std::io::Error) -> String {
    format!("{:?}", e.kind())
}

fn handle(sh: &Arc<Shared>, mut rq: Request, c: usize, m: usize) {
    let plan = match sh.sc.conns.get(c).and_then(|x| x.msgs.get(m)).and_then(|x| x.plan.clone()) {
        Some(p) => p,
        None => Plan {
            ans: Ans {
                how: "respond".into(),
                status: 200,
                len: 3,
                declared: true,
                ..Default::default()
            },
            ..Default::default()
        },
    };
    let expect_body: &[u8] = sh.bodies.get(c).and_then(|x| x.get(m)).map(|v| &v[..]).unwrap_or(&[]);
    if plan.wait_phase > 0 {
        world::wait_phase(plan.wait_phase);
    }
    if plan.delay_ns > 0 {
        world::sleep_ns(plan.delay_ns);
    }
    for _ in 0..plan.ask {
        world::log(format!("\"ev\":\"Ask\",\"c\":{},\"m\":{}", c, m));
        lib(|| {
            let _ = rq.as_reader();
        });
    }
    if plan.hold_phase > 0 {
        world::wait_phase(plan.hold_phase);
    }
    if let Some(kind) = plan.read_std.as_deref() {
        // the way applications usually read a body: the helpers of std (they retry on ErrorKind::Interrupted)
        if plan.ask == 0 {
            world::log(format!("\"ev\":\"Ask\",\"c\":{},\"m\":{}", c, m));
        }
        let want = 1usize << 30;
        world::log(format!("\"ev\":\"ReadCall\",\"c\":{},\"m\":{},\"want\":{}", c, m, want));
        let mut got: Vec<u8> = Vec::new();
        let r: std::io::Result<()> = lib(|| {
            if kind == "copy" {
                std::io::copy(rq.as_reader(), &mut got).map(|_| ())
            } else if kind == "read_to_string" {
                let mut text = String::new();
                let r = rq.as_reader().read_to_string(&mut text).map(|_| ());
                got = text.into_bytes();
                r
            } else if kind == "vectored_then_plain" {
                // one vectored read, then the rest with the ordinary helper
                let mut a = [0u8; 64];
                let mut b = [0u8; 200];
                let first = {
                    let mut bufs = [std::io::IoSliceMut::new(&mut a), std::io::IoSliceMut::new(&mut b)];
                    rq.as_reader().read_vectored(&mut bufs)
                };
                match first {
                    Err(e) => Err(e),
                    Ok(n) => {
                        let na = n.min(a.len());
                        got.extend_from_slice(&a[..na]);
                        got.extend_from_slice(&b[..n - na]);
                        rq.as_reader().read_to_end(&mut got).map(|_| ())
                    }
                }
            } else if kind == "vectored" {
                // read_vectored into two small buffers until it reports the end of the body
                let mut a = [0u8; 300];
                let mut b = [0u8; 724];
                loop {
                    let n = {
                        let mut bufs = [std::io::IoSliceMut::new(&mut a), std::io::IoSliceMut::new(&mut b)];
                        match rq.as_reader().read_vectored(&mut bufs) {
                            Ok(n) => n,
                            Err(e) => break Err(e),
                        }
                    };
                    if n == 0 {
                        break Ok(());
                    }
                    let na = n.min(a.len());
                    got.extend_from_slice(&a[..na]);
                    got.extend_from_slice(&b[..n - na]);
                }
            } else if kind == "read_to_end_sized" {
                // a buffer sized by the declared length: no read is ever larger than what is left of the body
                got = Vec::with_capacity(rq.body_length().unwrap_or(0));
                rq.as_reader().read_to_end(&mut got).map(|_| ())
            } else if kind == "read_exact" {
                // exactly the declared length, then one more read to see the end of the body
                got = vec![0u8; rq.body_length().unwrap_or(0)];
                let r = rq.as_reader().read_exact(&mut got);
                match r {
                    Ok(()) => {
                        let mut one = [0u8; 1];
                        loop {
                            match rq.as_reader().read(&mut one) {
                                Ok(0) => break Ok(()),
                                Ok(_) => got.push(one[0]),
                                Err(e) => break Err(e),
                            }
                        }
                    }
                    Err(e) => {
                        got.clear();
                        Err(e)
                    }
                }
            } else {
                rq.as_reader().read_to_end(&mut got).map(|_| ())
            }
        });
        let n = got.len();
        let ok = n <= expect_body.len() && got[..] == expect_body[..n];
        match r {
            Ok(()) => {
                world::log(format!(
                    "\"ev\":\"ReadRet\",\"c\":{},\"m\":{},\"want\":{},\"got\":{},\"ok\":{},\"tot\":{},\"err\":\"\"",
                    c, m, want, n, ok, n
                ));
                if n > 0 {
                    // the helper returned because a read returned 0
                    world::log(format!("\"ev\":\"ReadCall\",\"c\":{},\"m\":{},\"want\":1", c, m));
                    world::log(format!(
                        "\"ev\":\"ReadRet\",\"c\":{},\"m\":{},\"want\":1,\"got\":0,\"ok\":true,\"tot\":{},\"err\":\"\"",
                        c, m, n
                    ));
                }
            }
            Err(e) => {
                world::log(format!(
                    "\"ev\":\"ReadRet\",\"c\":{},\"m\":{},\"want\":{},\"got\":0,\"ok\":{},\"tot\":{},\"err\":{}",
                    c, m, want, ok, n, js(&ekind(&e))
                ));
            }
        }
    } else if !plan.read.is_empty() || plan.to_eof || plan.upto.map_or(false, |u| u > 0) {
        let mut off = 0usize;
        let mut sizes = plan.read.clone();
        if sizes.is_empty() {
            sizes.push(4096);
        }
        let mut i = 0;
        let mut first = plan.ask == 0;
        loop {
            let mut want = if i < sizes.len() { sizes[i] } else { *sizes.last().unwrap() };
            if i >= sizes.len() && !plan.to_eof && plan.upto.is_none() {
                break;
            }
            if let Some(u) = plan.upto {
                if off >= u {
                    break;
                }
                want = want.min(u - off);
            }
            i += 1;
            if first {
                world::log(format!("\"ev\":\"Ask\",\"c\":{},\"m\":{}", c, m));
                first = false;
            }
            world::log(format!("\"ev\":\"ReadCall\",\"c\":{},\"m\":{},\"want\":{}", c, m, want));
            let mut buf = vec![0u8; want];
            let r = lib(|| rq.as_reader().read(&mut buf));
            match r {
                Ok(n) => {
                    let ok = off + n <= expect_body.len() && buf[..n] == expect_body[off..off + n];
                    off += n;
                    world::log(format!(
                        "\"ev\":\"ReadRet\",\"c\":{},\"m\":{},\"want\":{},\"got\":{},\"ok\":{},\"tot\":{},\"err\":\"\"",
                        c, m, want, n, ok, off
                    ));
                    if n == 0 && want > 0 {
                        break;
                    }
                }
                Err(e) => {
                    world::log(format!(
                        "\"ev\":\"ReadRet\",\"c\":{},\"m\":{},\"want\":{},\"got\":0,\"ok\":true,\"tot\":{},\"err\":{}",
                        c,
                        m,
                        want,
                        off,
                        js(&ekind(&e))
                    ));
                    break;
                }
            }
            if i > 100_000 {
                break;
            }
        }
    }
    if plan.ans_phase > 0 {
        world::wait_phase(plan.ans_phase);
    }
    let a = &plan.ans;
    let xid = Header::from_bytes(&b"X-Id"[..], format!("{}.{}", c, m).as_bytes()).unwrap();
    match a.how.as_str() {
        "respond" => {
            world::log(format!(
                "\"ev\":\"AnsStart\",\"c\":{},\"m\":{},\"how\":\"respond\",\"st\":{},\"len\":{}",
                c, m, a.status, a.len
            ));
            let body = resp_body(c, m, a.len);
            let rd = PieceReader {
                data: body,
                pos: 0,
                piece: a.piece,
                fail_at: a.fail_at,
                fail_panic: a.fail_panic,
            };
            let mut resp = Response::new(
                StatusCode(a.status),
                vec![xid],
                rd,
                if a.declared { Some(a.len) } else { None },
                None,
            );
            if let Some(t) = a.thr {
                resp = resp.with_chunked_threshold(t);
            }
            if a.fail_panic {
                // the application's own reader panics inside respond(): the handler unwinds
                let depth = IN_LIB.with(|c| c.get());
                let r = std::panic::catch_unwind(std::panic::AssertUnwindSafe(move || lib(|| rq.respond(resp))));
                IN_LIB.with(|c| c.set(depth));
                let (ok, err) = match r {
                    Ok(Ok(())) => (true, String::new()),
                    Ok(Err(e)) => (false, ekind(&e)),
                    Err(_) => (false, "panic".to_string()),
                };
                world::log(format!("\"ev\":\"AnsEnd\",\"c\":{},\"m\":{},\"ok\":{},\"err\":{}", c, m, ok, js(&err)));
                return;
            }
            let r = lib(|| rq.respond(resp));
            world::log(format!(
                "\"ev\":\"AnsEnd\",\"c\":{},\"m\":{},\"ok\":{},\"err\":{}",
                c,
                m,
                r.is_ok(),
                js(&r.err().map(|e| ekind(&e)).unwrap_or_default())
            ));
        }
        "writer" => {
            let total: usize = a.parts.iter().sum();
            world::log(format!(
                "\"ev\":\"AnsStart\",\"c\":{},\"m\":{},\"how\":\"writer\",\"st\":{},\"len\":{}",
                c, m, a.status, total
            ));
            let mut w = lib(|| rq.into_writer());
            if a.flush_first {
                let _ = lib(|| w.flush());
            }
            if a.empty_first {
                let _ = lib(|| w.write(&[]));
            }
            let body = resp_body(c, m, total);
            let mut ok = true;
            let mut errk = String::new();
            let mut first = true;
            let mut off = 0;
            let parts: Vec<usize> = a.parts.clone();
            let nparts = parts.len();
            for (i, p) in parts.iter().enumerate() {
                let mut chunk = Vec::new();
                if first {
                    chunk.extend_from_slice(
                        format!(
                            "HTTP/1.1 {} Raw\r\nX-Id: {}.{}\r\nContent-Length: {}\r\n\r\n",
                            a.status, c, m, total
                        )
                        .as_bytes(),
                    );
                    first = false;
                }
                chunk.extend_from_slice(&body[off..off + p]);
                off += p;
                let wr = if a.vectored {
                    // two slices per call, as a handler assembling head and body from separate buffers would
                    let cut = chunk.len() / 3;
                    let mut res = Ok(());
                    let mut done = 0usize;
                    while done < chunk.len() {
                        let mid = done.max(cut).min(chunk.len());
                        let bufs = [std::io::IoSlice::new(&chunk[done..mid]), std::io::IoSlice::new(&chunk[mid..])];
                        match w.write_vectored(&bufs) {
                            Ok(0) => {
                                res = Err(std::io::Error::new(std::io::ErrorKind::WriteZero, "write_vectored wrote nothing"));
                                break;
                            }
                            Ok(n) => done += n,
                            Err(e) => {
                                res = Err(e);
                                break;
                            }
                        }
                    }
                    res
                } else {
                    w.write_all(&chunk)
                };
                if let Err(e) = wr {
                    ok = false;
                    errk = ekind(&e);
                    break;
                }
                let fl = match a.flush.as_str() {
                    "each" => true,
                    "last" => i + 1 == nparts,
                    _ => false,
                };
                if fl {
                    if let Err(e) = w.flush() {
                        ok = false;
                        errk = ekind(&e);
                        break;
                    }
                }
            }
            world::log(format!(
                "\"ev\":\"AnsWritten\",\"c\":{},\"m\":{},\"parts\":{},\"flushed\":{}",
                c,
                m,
                nparts,
                a.flush == "each" || a.flush == "last"
            ));
            lib(|| drop(w));
            world::log(format!("\"ev\":\"AnsEnd\",\"c\":{},\"m\":{},\"ok\":{},\"err\":{}", c, m, ok, js(&errk)));
        }
        "upgrade" => {
            world::log(format!(
                "\"ev\":\"AnsStart\",\"c\":{},\"m\":{},\"how\":\"upgrade\",\"st\":101,\"len\":0",
                c, m
            ));
            let resp = Response::new(StatusCode(101), vec![xid], std::io::empty(), Some(0), None);
            let mut s = rq.upgrade("verif", resp);
            // echo `len` opaque bytes back, then read what the client sent after the head
            let ob = resp_body(c, m, a.len);
            let mut ok = s.write_all(&ob).is_ok();
            ok = s.flush().is_ok() && ok;
            let mut got = 0usize;
            let mut good = true;
            let exp = expect_body;
            let mut buf = vec![0u8; 512];
            while got < exp.len() {
                match s.read(&mut buf) {
                    Ok(0) => break,
                    Ok(n) => {
                        if got + n > exp.len() || buf[..n] != exp[got..got + n] {
                            good = false;
                        }
                        got += n;
                    }
                    Err(_) => break,
                }
            }
            world::log(format!(
                "\"ev\":\"UpgradeRead\",\"c\":{},\"m\":{},\"got\":{},\"ok\":{}",
                c, m, got, good
            ));
            drop(s);
            world::log(format!("\"ev\":\"AnsEnd\",\"c\":{},\"m\":{},\"ok\":{},\"err\":\"\"", c, m, ok));
        }
        "drop" => {
            world::log(format!(
                "\"ev\":\"AnsStart\",\"c\":{},\"m\":{},\"how\":\"drop\",\"st\":500,\"len\":0",
                c, m
            ));
            lib(|| drop(rq));
            world::log(format!("\"ev\":\"AnsEnd\",\"c\":{},\"m\":{},\"ok\":true,\"err\":\"\"", c, m));
        }
        "panic" => {
            world::log(format!(
                "\"ev\":\"AnsStart\",\"c\":{},\"m\":{},\"how\":\"panic\",\"st\":500,\"len\":0",
                c, m
            ));
            let r = std::panic::catch_unwind(std::panic::AssertUnwindSafe(move || {
                let _hold = rq;
                panic!("planned handler panic");
            }));
            let _ = r;
            world::log(format!("\"ev\":\"AnsEnd\",\"c\":{},\"m\":{},\"ok\":true,\"err\":\"\"", c, m));
        }
        _ => {
            // keep: held until teardown
            world::log(format!("\"ev\":\"Keep\",\"c\":{},\"m\":{}", c, m));
            sh.kept.lock().unwrap().push(rq);
        }
    }
}

enum Got {
    Req(Request),
    Empty,
    Fail,
}

fn one_recv(sh: &Arc<Shared>, server: &Server, t: usize, kind: &str, ms: u64) -> Got {
    world::log(format!("\"ev\":\"RecvCall\",\"t\":{},\"kind\":{},\"ms\":{}", t, js(kind), ms));
    let r: Got = match kind {
        "recv" => match server.recv() {
            Ok(r) => Got::Req(r),
            Err(_) => Got::Fail,
        },
        "iter" => match server.incoming_requests().next() {
            Some(r) => Got::Req(r),
            None => Got::Fail,
        },
        "try" => match server.try_recv() {
            Ok(Some(r)) => Got::Req(r),
            Ok(None) => Got::Empty,
            Err(_) => Got::Fail,
        },
        _ => match server.recv_timeout(std::time::Duration::from_millis(ms)) {
            Ok(Some(r)) => Got::Req(r),
            Ok(None) => Got::Empty,
            Err(_) => Got::Fail,
        },
    };
    match &r {
        Got::Req(rq) => {
            let (c, m) = if sh.sc.by_order {
                (0i64, sh.order_ctr.fetch_add(1, std::sync::atomic::Ordering::SeqCst) as i64)
            } else {
                parse_id(rq.url())
            };
            let known = c >= 0
                && (c as usize) < sh.sc.conns.len()
                && m >= 0
                && (m as usize) < sh.sc.conns[c as usize].msgs.len();
            let headok = if known {
                match &sh.sc.conns[c as usize].msgs[m as usize].exp {
                    Some(e) => head_matches(rq, e),
                    None => false,
                }
            } else {
                false
            };
            let peer = rq.remote_addr().map(|a| a.to_string()).unwrap_or_default();
            world::log(format!(
                "\"ev\":\"RecvRet\",\"t\":{},\"kind\":{},\"res\":\"req\",\"c\":{},\"m\":{},\"headok\":{},\"method\":{},\"url\":{},\"peer\":{}",
                t,
                js(kind),
                if known { c } else { -1 },
                if known { m } else { -1 },
                headok,
                js(rq.method().as_str()),
                js(rq.url()),
                js(&peer)
            ));
        }
        Got::Empty => world::log(format!(
            "\"ev\":\"RecvRet\",\"t\":{},\"kind\":{},\"res\":\"none\",\"c\":-1,\"m\":-1,\"headok\":true",
            t,
            js(kind)
        )),
        Got::Fail => world::log(format!(
            "\"ev\":\"RecvRet\",\"t\":{},\"kind\":{},\"res\":\"err\",\"c\":-1,\"m\":-1,\"headok\":true",
            t,
            js(kind)
        )),
    }
    r
}

fn dispatch(sh: &Arc<Shared>, rq: Request, mode: &str) {
    let (c, m) = if sh.sc.by_order {
        // one_recv has just numbered it
        (0i64, sh.order_ctr.load(std::sync::atomic::Ordering::SeqCst) as i64 - 1)
    } else {
        parse_id(rq.url())
    };
    let known = c >= 0
        && (c as usize) < sh.sc.conns.len()
        && m >= 0
        && (m as usize) < sh.sc.conns[c as usize].msgs.len();
    if !known {
        // a request that is not in the ledger: answer it plainly so that nothing hangs
        let _ = rq.respond(Response::from_string("unknown").with_status_code(StatusCode(299)));
        return;
    }
    let (c, m) = (c as usize, m as usize);
    if mode == "spawn" {
        let sh2 = sh.clone();
        let j = world::spawn(&format!("h:{}.{}", c, m), move || handle(&sh2, rq, c, m));
        sh.handlers.lock().unwrap().push(j);
    } else {
        handle(sh, rq, c, m);
    }
}

struct AppState {
    held: Vec<Request>,
    failed: bool,
}

fn run_steps(sh: &Arc<Shared>, server: &Server, t: usize, steps: &[AStep], st: &mut AppState) {
    for s in steps {
        if st.failed {
            return;
        }
        match s {
            AStep::Recv { kind, ms } => match one_recv(sh, server, t, kind, *ms) {
                Got::Req(r) => st.held.push(r),
                Got::Empty => {}
                Got::Fail => st.failed = true,
            },
            AStep::Handle { sel, mode } => {
                let list: Vec<Request> = match sel.as_str() {
                    "oldest" => {
                        if st.held.is_empty() {
                            vec![]
                        } else {
                            vec![st.held.remove(0)]
                        }
                    }
                    "newest" => st.held.pop().into_iter().collect(),
                    _ => st.held.drain(..).collect(),
                };
                for r in list {
                    dispatch(sh, r, mode);
                }
            }
            AStep::Repeat { n, body } => {
                for _ in 0..*n {
                    run_steps(sh, server, t, body, st);
                }
            }
            AStep::Serve {
                kind,
                ms,
                mode,
                max_empty,
            } => {
                let mut empties = 0;
                loop {
                    match one_recv(sh, server, t, kind, *ms) {
                        Got::Req(r) => dispatch(sh, r, mode),
                        Got::Empty => {
                            empties += 1;
                            if empties >= *max_empty {
                                break;
                            }
                            if kind == "try" {
                                world::sleep_ns(1_000_000);
                            }
                        }
                        Got::Fail => {
                            st.failed = true;
                            break;
                        }
                    }
                }
            }
            AStep::Collect { k, kind, ms } => {
                let mut empties = 0;
                while st.held.len() < *k {
                    match one_recv(sh, server, t, kind, *ms) {
                        Got::Req(r) => st.held.push(r),
                        Got::Empty => {
                            empties += 1;
                            if empties > 50 {
                                break;
                            }
                            if kind == "try" {
                                world::sleep_ns(1_000_000);
                            }
                        }
                        Got::Fail => {
                            st.failed = true;
                            break;
                        }
                    }
                }
            }
            AStep::Sleep { ns } => world::sleep_ns(*ns),
            AStep::Unblock => {
                world::log("\"ev\":\"Unblock\"".to_string());
                server.unblock();
            }
            AStep::Phase { k } => world::wait_phase(*k),
            AStep::Spurious => {
                world::log("\"ev\":\"Spurious\"".to_string());
                world::spurious();
            }
        }
    }
}

fn app_thread(sh: Arc<Shared>, server: Arc<Server>, t: usize) {
    let prog = sh.sc.apps[t].prog.clone();
    let mut st = AppState {
        held: Vec::new(),
        failed: false,
    };
    run_steps(&sh, &server, t, &prog, &mut st);
    // requests still held when the program ends are answered in arrival order
    for r in st.held.drain(..) {
        dispatch(&sh, r, "inline");
    }
    world::log(format!("\"ev\":\"AppDone\",\"t\":{}", t));
}

/// the scenario's main thread (inside the world)
pub fn env_main(sc: Scenario) {
    let streams: Vec<Vec<u8>> = sc.conns.iter().map(|c| unhex(&c.stream_hex)).collect();
    let bodies: Vec<Vec<Vec<u8>>> = sc
        .conns
        .iter()
        .map(|c| c.msgs.iter().map(|m| unhex(&m.body_hex)).collect())
        .collect();
    let n = sc.conns.len();
    let sh = Arc::new(Shared {
        sc: sc.clone(),
        streams,
        bodies,
        seen: (0..n).map(|_| Mutex::new(0)).collect(),
        seen_cv: (0..n).map(|_| Condvar::new()).collect(),
        kept: Mutex::new(Vec::new()),
        order_ctr: std::sync::atomic::AtomicUsize::new(0),
        handlers: Mutex::new(Vec::new()),
    });
    let (server, addr) = world::make_server(&sc.transport, &sc.id);
    let server = Arc::new(server);
    let mut apps = Vec::new();
    for t in 0..sc.apps.len() {
        let sh2 = sh.clone();
        let sv = server.clone();
        apps.push(world::spawn(&format!("app:{}", t), move || app_thread(sh2, sv, t)));
    }
    let mut clis = Vec::new();
    for c in 0..n {
        let sh2 = sh.clone();
        let a = addr.clone();
        clis.push(world::spawn(&format!("cw:{}", c), move || client_writer(sh2, c, a)));
    }
    world::wait_phase(1);
    if sc.drop_server_early {
        // receivers must let go of the server first
        for _ in 0..sc.apps.len() {
            world::log("\"ev\":\"Unblock\"".to_string());
            server.unblock();
        }
        for a in apps.drain(..) {
            a.join();
        }
        world::log("\"ev\":\"ServerDrop\"".to_string());
        drop(server);
        world::log("\"ev\":\"ServerDropped\"".to_string());
        world::wait_phase(2);
        finish(&sh, &addr, clis, sc.connect_after_drop);
        return;
    }
    world::wait_phase(2);
    for _ in 0..sc.apps.len() {
        world::log("\"ev\":\"Unblock\"".to_string());
        server.unblock();
    }
    for a in apps {
        a.join();
    }
    world::log("\"ev\":\"ServerDrop\"".to_string());
    drop(server);
    world::log("\"ev\":\"ServerDropped\"".to_string());
    finish(&sh, &addr, clis, sc.connect_after_drop);
}

fn finish(sh: &Arc<Shared>, addr: &Addr, clis: Vec<world::Join>, connect_after_drop: u32) {
    loop {
        let hs: Vec<world::Join> = sh.handlers.lock().unwrap().drain(..).collect();
        if hs.is_empty() {
            break;
        }
        for h in hs {
            h.join();
        }
    }
    // requests kept to the end are released now (each gets its automatic 500)
    let kept: Vec<Request> = sh.kept.lock().unwrap().drain(..).collect();
    for r in kept {
        let (c, m) = parse_id(r.url());
        world::log(format!("\"ev\":\"KeptDrop\",\"c\":{},\"m\":{}", c, m));
        drop(r);
    }
    world::wait_phase(3);
    for i in 0..connect_after_drop {
        let r = Cli::connect(addr);
        world::log(format!("\"ev\":\"Connect\",\"n\":{},\"ok\":{}", i, r.is_ok()));
        if let Ok(c) = r {
            c.close();
        }
    }
    for c in clis {
        c.join();
    }
    world::log("\"ev\":\"MainDone\"".to_string());
}
