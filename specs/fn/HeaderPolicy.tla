---------------------------- MODULE HeaderPolicy ----------------------------
(***************************************************************************)
(* C19: which of the application's response headers are sent.              *)
(* A header list is a sequence of [n |-> name class, v |-> value id].      *)
(* Name classes: "connection","trailer","te","upgrade","cl","clbad","ctype" *)
(* "date","server","xa","xb".                                              *)
(***************************************************************************)
EXTENDS Integers, Sequences, FiniteSets

Protected == {"connection", "trailer", "te", "upgrade", "cl", "clbad"}
Classes == Protected \cup {"ctype", "date", "server", "xa", "xb"}

\* the value of the last Content-Type of the list
LastCtype(l) == LET I == {i \in 1..Len(l) : l[i].n = "ctype"} IN l[CHOOSE i \in I : \A j \in I : i >= j].v
FirstCtypeIdx(l) == LET I == {i \in 1..Len(l) : l[i].n = "ctype"} IN CHOOSE i \in I : \A j \in I : i <= j

\* application headers that must appear, in this order
RECURSIVE SentFrom(_, _)
SentFrom(l, i) ==
    IF i > Len(l) THEN <<>>
    ELSE LET h == l[i] IN
         (IF h.n \in Protected THEN <<>>
          ELSE IF h.n = "ctype" THEN (IF i = FirstCtypeIdx(l) THEN <<[n |-> "ctype", v |-> LastCtype(l)]>> ELSE <<>>)
          ELSE <<h>>) \o SentFrom(l, i + 1)
Sent(l) == SentFrom(l, 1)

HasClass(l, c) == \E i \in 1..Len(l) : l[i].n = c
Count(l, c) == Cardinality({i \in 1..Len(l) : l[i].n = c})

\* routes "<r>+wd": with_data replaces the body (and its declared length) after the first half of the list
\* has been given; everything else about the headers is unaffected by it
SplitAt(c) == IF c.route \in {"ctor+wd", "add+wd", "with+wd"} THEN (Len(c.list) + 1) \div 2 ELSE 0

\* the declared length after the list was applied: the last valid Content-Length given after the body was
\* set for the last time, else that body's own length
DeclaredLen(l, ctor, from) ==
    LET I == {i \in (from + 1)..Len(l) : l[i].n = "cl"} IN
    \* (concretiser convention: the valid Content-Length with value id k is the number 11 * k)
    IF I = {} THEN ctor ELSE 11 * l[CHOOSE i \in I : \A j \in I : i >= j].v

\* o.sent = observed header list (classes/value ids) without the framing headers and without an
\* automatically added Date / Server
Guards(o) ==
    << <<o.sent = Sent(o.case.list), "AppHeadersDiffer">>,
       <<o.ndate = (IF HasClass(o.case.list, "date") THEN Count(o.case.list, "date") ELSE 1), "DateCount">>,
       <<(~HasClass(o.case.list, "date")) => o.datevalid, "DateInvalid">>,
       <<o.nserver = (IF HasClass(o.case.list, "server") THEN Count(o.case.list, "server") ELSE 1), "ServerCount">>,
       <<o.declared = DeclaredLen(o.case.list, o.case.ctorlen, SplitAt(o.case)), "DeclaredLength">>,
       <<o.nprotected = 0, "ProtectedHeaderSent">> >>
=============================================================================
