#!/usr/bin/env python3
"""Prepare a round of seeded-change sub-agents: one scratch worktree of /repo and one prompt file per
property.  usage: mkround.py <round-no> <Cnn>...   (worktrees /tmp/m<r>_<Cnn>, prompts /tmp/prompt<r>_<Cnn>.txt)
The sub-agents see the property text only; nothing from /verif is shown to them."""
import json, subprocess, sys, os

AVOID = {
    'C01': "(a) making flush() release the next writer, (b) discarding the turn receiver in flush before the first write, (c) a dropped-before-turn writer forwarding its predecessor's receiver, (d) skipping the turn wait when the thread is panicking, (e) a fast path that skips the turn wait when only one writer is queued, (f) a stale connection-idle flag that lets a new writer skip the chain",
    'C02': "(a) trimming header values of spaces only, (b) restricting extension method tokens to alphanumerics, (c) folding the Connection header value to lower case when parsed, (d) rejecting header values that contain a control character such as HTAB, (e) dropping Content-Length from the delivered headers when Transfer-Encoding is present",
    'C03': "(a) a case-sensitive Transfer-Encoding name test, (b) buffering a small body with a single read, (c) normalising Content-Length: 0 to 'no length', (d) a single header loop in which a Content-Length after Transfer-Encoding wins, (e) a top-up read bounded by the caller's buffer instead of the body length, (f) detecting upgrade token-wise on untrimmed Connection tokens",
    'C04': "(a) never terminating a declared-empty chunked body, (b) taking a short read for the end of the input, (c) always running the body-sending branch with an empty reader for bodiless responses, (d) with_data(reader, None) inheriting the length of the template, (e) matching the reserved response header names case-sensitively",
    'C05': "(a) adding 304 to the never-chunked statuses, (b) a TE list search that stops at an unsupported coding, (c) max_by(q) instead of a stable sort (ties reversed), (d) advertising Content-Length: 0 for an unsent body of unknown length, (e) skipping a TE-preferred identity when the length is unknown",
    'C06': "(a) failing writes while a thread is panicking, (b) releasing the next writer at flush time, (c) keeping the writer inside the request until respond succeeded, (d) releasing the body reader before the automatic 500 is written, (e) the automatic 500 of a dropped HEAD request framed with a chunk terminator, (f) skipping the flush while another writer of the connection exists",
    'C07': "(a) notifying only when the queue was empty, (b) try_pop leaving an Unblock token at the head, (c) releasing the queue lock between the check and wait_timeout, (d) taking from the back of the queue on the give-up path of pop_timeout, (e) skipping notify_one when a parked-receiver counter is 0",
    'C08': "(a) leaking the waiting counter when a worker retires, (b) notifying only when the task queue was empty, (c) a timed-out worker retiring without re-checking the queue, (d) dropping the waiting registration after the pool lock is released, (e) dropping the finished task (with the connection inside) while holding the pool lock, (f) counting not-yet-started initial workers as available in spawn()",
    'C09': "(a) over-reading while discarding an unread Content-Length body, (b) swapping the order of the drain and fuse wrappers of the chunked reader, (c) not discarding the body of a 'last' request, (d) capping the discard of an unread body, (e) un-fusing the body reader on empty-buffer reads while removing the finished guard of the chunk drain, (f) putting the keep-alive test before the upgrade test in the persistence decision",
    'C10': "(a) ignoring Expect for HTTP/1.0 requests, (b) dropping the headers of a request rejected with 505, (c) deciding the 417 only after the request body has been framed, (d) trimming a header line before the end-of-head test (whitespace-only line), (e) accepting head lines as UTF-8 instead of ASCII",
    'C11': "(a) reading a small body with a single read, (b) sending an explicit Content-Length: 0 down the large-body path, (c) an off-by-one at the 1024-byte threshold, (d) streaming small bodies when many responses are pending, (e) fusing a large body only when the request says keep-alive, (f) notifying in MessagesQueue::push only when the queue was empty",
    'C12': "(a) re-ordering the keep-alive/close/upgrade tests, (b) shutting the socket down when the client's FIN is read, (c) re-ordering the fields of the connection object, (d) caching the Connection header value on the connection object, (e) comparing untrimmed Connection options as whole tokens, (f) dropping the shutdown(Write) of the writing half",
    'C13': "(a) reading a small body with at most two reads, (b) a discard loop that uses a stale length field, (c) a bulk copy of the buffered part of a head line that forgets a trailing CR, (d) an extra BufReader under the Content-Length body reader, (e) a drain budget charged per read call instead of per byte",
    'C14': "(a) expect() on an overflowing Content-Length, (b) an unchecked slice of a TE parameter, (c) sizing the discard buffer by the declared remainder of a chunk, (d) skipping the buffering of an unknown-length body that will not be sent (assert fails), (e) recursion instead of a loop after a 505",
    'C15': "(a) no longer ignoring closing errors from the final flush, (b) accepting a short small body via read_to_end, (c) a drain loop that spins on Ok(0), (d) treating EOF at a line boundary like the blank line, (e) reporting a premature EOF of a body as ErrorKind::Interrupted, (f) flushing in Drop for SequentialWriter while holding the writer lock before the turn",
    'C16': "(a) accepting a leading HTAB again, (b) a hand-rolled wrapping digit fold for Content-Length, (c) a header lookup helper that drops empty values, (d) stripping trailing whitespace in read_next_line (whitespace-only line ends the head), (e) parsing Content-Length with usize::from_str alone (accepts +5)",
    'C17': "(a) moving Instant::now() out of the loop of pop_timeout, (b) notifying in unblock() only when the queue was empty, (c) a timed receiver that gives up leaving the unblock token behind, (d) recomputing the time budget of pop_timeout in every iteration, (e) discarding every unblock token in front of the first request in try_pop, (f) a parked-receiver counter that is decremented twice on a notified give-up",
    'C18': "(a) no 100 Continue for Content-Length: 0, (b) setting the expectation flag from is_ok(), (c) discarding a short body through as_reader() before answering, (d) not flushing the 100 Continue when the body length is 0 or unknown, (e) a case-sensitive comparison for the 100-continue flag",
    'C19': "(a) a case-sensitive Content-Type replacement, (b) a single early-exit scan for Date/Server, (c) a cached Content-Type index that with_data forgets, (d) a Content-Length that does not parse falling through to the header list, (e) a cached Date header whose age is reset on every hit",
    'C20': "(a) changing the marker value stored by TaskPool::drop, (b) notify_all instead of notify_one on dispatch, (c) subtracting a reclaimed worker twice, (d) draining the request queue in Server::drop, (e) storing the close flag after the wake-up self-connect, (f) the accept thread skipping the wake-up connection and becoming the last owner of the queue",
}

def main():
    r = sys.argv[1]
    here = os.path.dirname(os.path.abspath(__file__))
    props = {json.loads(l)['id']: json.loads(l) for l in open('/verif/properties.jsonl')}
    for pid in sys.argv[2:]:
        p = props[pid]
        open('/tmp/prop_%s.txt' % pid, 'w').write("Property %s: %s\n\nStatement: %s\n\nQuantifier (%s): %s\n" % (
            p['id'], p['title'], p['statement'], ", ".join(p['quantifier']['over']), p['quantifier']['text']))
        wt = '/tmp/m%s_%s' % (r, pid)
        subprocess.check_call(['git', '-C', '/repo', 'worktree', 'add', '-q', '--detach', wt, 'HEAD'])
        out = subprocess.check_output(['python3', os.path.join(here, 'agent_prompt.py'), pid]).decode().replace('/tmp/mut_', '/tmp/m%s_' % r)
        out = out.replace("git stash push src", "git diff -- src > %s/patch.diff && git apply -R %s/patch.diff" % (wt, wt)) \
                 .replace("git stash pop", "git apply %s/patch.diff" % wt) \
                 .replace("`git stash` ONLY the src change (keep the demo file, e.g. `", "remove ONLY the src change (keep the demo file, e.g. `")
        out += ("\n\nIMPORTANT: do NOT use `git stash` at all (shared between worktrees); use the patch-file commands above. "
                "Other engineers have already tried these ideas: %s. Do something clearly different: prefer a change that involves TWO "
                "cooperating sites that each look fine alone, a multi-step history, or a refactoring that is behaviour-preserving except in one "
                "corner of the quantifier above. The machine is busy: builds and tests may be slow, be patient and keep the timeouts generous.\n" % AVOID[pid])
        open('/tmp/prompt%s_%s.txt' % (r, pid), 'w').write(out)
        os.remove('/tmp/prop_%s.txt' % pid)
    print('ok')

if __name__ == '__main__':
    main()
