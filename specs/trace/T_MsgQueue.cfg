SPECIFICATION TSpec
CONSTANTS
  Recv = {1, 2, 3, 4, 5, 6}
  Progs = {}
  NItems = 100000
  NUnblock = 100000
  T = 200
  Eps = 10
  MaxNow = 100000000
  AllowSpurious = TRUE
  DevPopTimeoutNoRecheck = FALSE
POSTCONDITION Accepted
CHECK_DEADLOCK FALSE
