---------------------------- MODULE T_WriterChain ----------------------------
(***************************************************************************)
(* Mechanism-level trace specification for the response writer chain: the  *)
(* marker events `mark!("w.write" | "w.flush" | "w.drop", chain, k)` of    *)
(* src/util/sequential.rs, grouped per connection (chain), must be a       *)
(* behaviour of mech/WriterChain -- in particular a writer writes or       *)
(* flushes only after its predecessor has been dropped (Turn), whatever    *)
(* threads do it.  Fidelity measurement only (DESIGN.md 2.1).              *)
(*                                                                         *)
(* Events (tools/mechtrace.py): Reset(plan) starts a chain; plan[k] is the *)
(* sequence of steps writer k was observed to perform (every write is      *)
(* taken as a buffer-bypassing one: the buffer is not observable here).    *)
(* op(k, "write" | "flush" | "drop").  Acquiring the turn is a silent step *)
(* in front of a writer's first write / flush.                             *)
(***************************************************************************)
EXTENDS WriterChain, Json, IOUtils

Rec == ndJsonDeserialize(IOEnv.TRACE)

VARIABLE l
tvars == <<vars, l>>

Reach(n) == TLCSet(42, IF TLCGet(42) < n THEN n ELSE TLCGet(42))
E == Rec[l]
Consume == l <= Len(Rec) /\ l' = l + 1

TInit ==
    /\ TLCSet(42, 1) /\ l = 1
    /\ plan = [r \in 1..N |-> <<>>]
    /\ pc = [r \in Writers |-> 1]
    /\ turn = [r \in Writers |-> FALSE]
    /\ fin = [r \in Writers |-> FALSE]
    /\ buf = <<>> /\ out = <<>> /\ closed = FALSE

TReset ==
    /\ Consume /\ E.ev = "Reset"
    /\ plan' = [r \in 1..N |-> IF r <= Len(E.plan) THEN E.plan[r] ELSE <<>>]
    /\ pc' = [r \in Writers |-> 1]
    /\ turn' = [r \in Writers |-> FALSE]
    /\ fin' = [r \in Writers |-> FALSE]
    /\ buf' = <<>> /\ out' = <<>> /\ closed' = FALSE

\* silent: the writer's first write / flush waits for (and gets) its turn
TTurn ==
    /\ l <= Len(Rec) /\ l' = l
    /\ E.ev = "op" /\ E.op \in {"write", "flush"} /\ ~turn[E.k]
    /\ Turn(E.k)

TWrite == Consume /\ E.ev = "op" /\ E.op = "write" /\ Write(E.k)
TFlush == Consume /\ E.ev = "op" /\ E.op = "flush" /\ Flush(E.k)
TDrop  == Consume /\ E.ev = "op" /\ E.op = "drop" /\ DropW(E.k)

\* the register is advanced only by a step that was actually taken (all of its guards held)
TNext == (TReset \/ TTurn \/ TWrite \/ TFlush \/ TDrop) /\ Reach(l')
TSpec == TInit /\ [][TNext]_tvars

Accepted == PrintT(<<"MECH", Len(Rec), TLCGet(42)>>)
=============================================================================
