\* C20: connections end, idle workers time out, the pool may be dropped at any moment (scaled: MIN = 2, 3 connections)
SPECIFICATION FairSpec
CONSTANTS
  N = 3
  MinThreads = 2
  MaxW = 5
  CanFinish = TRUE
  CanDrop = TRUE
  DevPoolCountsWoken = FALSE
INVARIANTS TypeOK NoStarve AtMostOneWorker WaitingCntOK BoundNotHit Reclaimed
PROPERTIES EveryConnServed EventuallyReclaimed DroppedAllGone
CHECK_DEADLOCK FALSE
