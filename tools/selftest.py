"""./check selftest -- demonstrates that the specifications are bound to the code (DESIGN.md 7.4).

1. judge binding: a known-good recorded execution is corrupted in three ways (a field changed, an
   event deleted, two events of different threads swapped); TLC must reject each.
2. mechanism binding: the marker trace of a good execution is corrupted (a logged queue length
   changed, a check event deleted); TLC must reject each.  And the marker traces of the real code are
   rejected by the mechanism spec with the wrong deviation setting (the fixed code does not behave
   like the pre-fix model when the racy schedule occurs).
3. vacuity: every mechanism configuration is run with -coverage 1; an action that is never taken
   fails the selftest.
"""
import json, os, re, shutil, sys, glob
import vlib, families, mechtrace
from vlib import log

def _good_execution():
    scs = [s for s in families.FAMILIES["C01"]("quick", 1) if "plan:r5+w2f+r1025" in " ".join(s["tags"]) or True][:6]
    wdir = os.path.join(vlib.WORK, "selftest")
    shutil.rmtree(wdir, ignore_errors=True)
    os.makedirs(wdir)
    files = vlib.run_driver(vlib.D1, scs, os.path.join(wdir, "traces"), "g", ["--sched", "random", "--seed", "7", "--runs", "1"], procs=2)
    ex, order = vlib.load_executions(files)
    return wdir, ex, order

def _judge(wdir, tag, lines):
    ex = {"t#0": [re.sub(r'^\{"x":"[^"]*"', '{"x":"t#0"', l) for l in lines]}
    v, n = vlib.validate(ex, ["t#0"], os.path.join(wdir, "val_" + tag))
    return v

def main():
    vlib.build(("d1",))
    ok = True
    wdir, ex, order = _good_execution()
    # pick an execution with at least two frames
    x = next(x for x in order if sum(1 for l in ex[x] if '"ev":"CFrame"' in l) >= 2)
    base = [l for l in ex[x] if '"ev":"mark"' not in l]
    v = _judge(wdir, "base", base)
    log("[selftest] base execution %s: %d violations (expected 0)" % (x, len(v)))
    ok &= len(v) == 0
    # (a) corrupt one recorded field: the status of the first frame
    i = next(i for i, l in enumerate(base) if '"ev":"CFrame"' in l)
    c1 = list(base)
    c1[i] = re.sub(r'"st":\d+', '"st":599', c1[i])
    v = _judge(wdir, "field", c1)
    log("[selftest] corrupted field (frame status): %d violations %s" % (len(v), sorted(set(q["guard"] for q in v))))
    ok &= len(v) > 0
    # (b) delete one event: the first frame disappears
    c2 = base[:i] + base[i + 1:]
    v = _judge(wdir, "delete", c2)
    log("[selftest] deleted event (first frame): %d violations %s" % (len(v), sorted(set(q["guard"] for q in v))))
    ok &= len(v) > 0
    # (c) swap two events of different threads: a frame is seen before its handler started answering
    j = next(k for k, l in enumerate(base) if '"ev":"AnsStart"' in l)
    c3 = list(base)
    fr = c3.pop(i)
    c3.insert(j, fr)
    v = _judge(wdir, "swap", c3)
    log("[selftest] swapped events (frame before AnsStart): %d violations %s" % (len(v), sorted(set(q["guard"] for q in v))))
    ok &= len(v) > 0
    # mechanism binding
    scs = [s for s in families.FAMILIES["C07"]("quick", 1)][:40]
    files = vlib.run_driver(vlib.D1, scs, os.path.join(wdir, "traces"), "q", ["--sched", "mix", "--seed", "3", "--runs", "2"], procs=4)
    qex, qorder = vlib.load_executions(files)
    mex = [(x, mechtrace.queue_events(qex[x])) for x in qorder]
    mex = [(x, e) for x, e in mex if e and any(q["ev"] == "push" for q in e)]
    acc, div = mechtrace.validate_mech("T_MsgQueue.tla", "T_MsgQueue.cfg", mex, os.path.join(wdir, "mech"), "base")
    log("[selftest] mechanism traces: %d/%d accepted (expected all)" % (acc, len(mex)))
    ok &= acc == len(mex)
    x0, e0 = mex[0]
    k = next(k for k, q in enumerate(e0) if q["ev"] == "push")
    bad1 = [dict(q) for q in e0]
    bad1[k]["len"] += 1
    acc, div = mechtrace.validate_mech("T_MsgQueue.tla", "T_MsgQueue.cfg", [(x0, bad1)], os.path.join(wdir, "mech"), "len")
    log("[selftest] mechanism trace with a corrupted queue length: accepted=%d (expected 0)" % acc)
    ok &= acc == 0
    # drop the queue check of a call that returns at once (check immediately followed by its ret)
    x1, e1, k2 = next((x_, e_, k) for x_, e_ in mex for k in range(len(e_) - 1)
                      if e_[k]["ev"] == "check" and e_[k + 1]["ev"] == "ret" and e_[k + 1]["r"] == e_[k]["r"])
    bad2 = e1[:k2] + e1[k2 + 1:]
    acc, div = mechtrace.validate_mech("T_MsgQueue.tla", "T_MsgQueue.cfg", [(x1, bad2)], os.path.join(wdir, "mech"), "drop")
    log("[selftest] mechanism trace with a dropped check event: accepted=%d (expected 0)" % acc)
    ok &= acc == 0
    # a divergence in the very last event of a file must be seen too
    x2, e2 = next((x_, e_) for x_, e_ in mex if e_[-1]["ev"] == "ret")
    bad3 = [dict(q) for q in e2]
    bad3[-1]["res"] = "req" if bad3[-1]["res"] != "req" else "none"
    acc, div = mechtrace.validate_mech("T_MsgQueue.tla", "T_MsgQueue.cfg", [(x2, bad3)], os.path.join(wdir, "mech"), "last")
    log("[selftest] mechanism trace whose last event was corrupted: accepted=%d (expected 0)" % acc)
    ok &= acc == 0
    # writer chain: the marker traces of the C01 executions are behaviours of mech/WriterChain; a write moved in
    # front of the predecessor's drop, and a writer dropped before its turn (the behaviour before F1), are not
    chains = [c for x_ in order for c in mechtrace.writer_chains(ex[x_]) if c]
    ch = next(c for c in chains if any(q["ev"] == "op" and q["k"] == 2 and q["op"] in ("write", "flush") for q in c)
              and any(q["ev"] == "op" and q["k"] == 1 and q["op"] == "drop" for q in c))
    acc, div = mechtrace.validate_mech("T_WriterChain.tla", "T_WriterChain.cfg", [("chain", ch)], os.path.join(wdir, "mech"), "wbase")
    log("[selftest] writer-chain marker trace: accepted=%d (expected 1)" % acc)
    ok &= acc == 1
    i2 = next(i for i, q in enumerate(ch) if q["ev"] == "op" and q["k"] == 2 and q["op"] in ("write", "flush"))
    i1 = next(i for i, q in enumerate(ch) if q["ev"] == "op" and q["k"] == 1 and q["op"] == "drop")
    badw = list(ch)
    w = badw.pop(i2)
    badw.insert(i1, w)
    acc, div = mechtrace.validate_mech("T_WriterChain.tla", "T_WriterChain.cfg", [("chain", badw)], os.path.join(wdir, "mech"), "wswap")
    log("[selftest] writer 2 acting before writer 1 is dropped: accepted=%d (expected 0)" % acc)
    ok &= acc == 0
    f1 = [{"ev": "Reset", "plan": [[["w", "b"], ["f"]], [], [["w", "b"], ["f"]]]}, {"ev": "op", "k": 2, "op": "drop"},
          {"ev": "op", "k": 3, "op": "write"}, {"ev": "op", "k": 1, "op": "write"}]
    acc, div = mechtrace.validate_mech("T_WriterChain.tla", "T_WriterChain.cfg", [("chain", f1)], os.path.join(wdir, "mech"), "wf1")
    log("[selftest] untouched writer dropped before its turn (pre-F1 behaviour): accepted=%d (expected 0)" % acc)
    ok &= acc == 0
    # listening socket: a hand-written history in the order of the code is a behaviour of mech/ServerLife; the same
    # with the wake-up connection in front of the flag (seeded change C20-7), with a client refused while the server
    # is alive, and with an accept on an empty queue, are not
    good = [{"ev": "Reset"}, {"ev": "check"}, {"ev": "connect", "ok": True}, {"ev": "accept"}, {"ev": "check"}, {"ev": "flag"},
            {"ev": "wakeconn", "ok": True}, {"ev": "dropped"}, {"ev": "accept"}, {"ev": "exit"}, {"ev": "connect", "ok": False}]
    acc, div = mechtrace.validate_mech("T_ServerLife.tla", "T_ServerLife.cfg", [("life", good)], os.path.join(wdir, "mech"), "slbase")
    log("[selftest] listening-socket history in code order: accepted=%d (expected 1)" % acc)
    ok &= acc == 1
    for what, bad in (("wake-up connection before the close flag", [good[0]] + good[1:5] + [good[6], good[5]] + good[7:]),
                      ("client refused while the server is alive", good[:2] + [{"ev": "connect", "ok": False}] + good[3:]),
                      ("accept on an empty queue", good[:2] + [{"ev": "accept"}] + good[2:]),
                      ("accept thread leaving its loop before the flag is set", good[:5] + [{"ev": "exit"}] + good[5:])):
        acc, div = mechtrace.validate_mech("T_ServerLife.tla", "T_ServerLife.cfg", [("life", bad)], os.path.join(wdir, "mech"), "slbad")
        log("[selftest] listening-socket history with %s: accepted=%d (expected 0)" % (what, acc))
        ok &= acc == 0
    # vacuity: coverage of the mechanism configurations
    for name, cfg, mod in (("MsgQueue_quick", "MsgQueue_quick.cfg", "MC_MsgQueue.tla"), ("TaskPool_c20_quick", "TaskPool_c20_quick.cfg", "../mech/TaskPool.tla"),
                           ("WriterChain_quick", "WriterChain_quick.cfg", "MC_WriterChain.tla"), ("ReaderChain_free", "ReaderChain_free.cfg", "MC_ReaderChain.tla"),
                           ("ServerLife_quick", "ServerLife_quick.cfg", "../mech/ServerLife.tla")):
        rc, out, wall = vlib.tlc("cov_" + name, cfg, mod, os.path.join(vlib.SPECS, "mc"), workers=4, timeout=900, extra=["-coverage", "1"])
        zero = re.findall(r"<(\w+) line \d+, col \d+ to line \d+, col \d+ of module \w+>: 0:0", out)
        acts = re.findall(r"<(\w+) line \d+, col \d+ to line \d+, col \d+ of module \w+>: (\d+):(\d+)", out)
        taken = {}
        for a, d, t in acts:
            taken[a] = taken.get(a, 0) + int(t)
        never = sorted(a for a, t in taken.items() if t == 0 and a not in ("Spurious",))
        log("[selftest] coverage %s: actions %s; never taken: %s" % (name, {a: t for a, t in sorted(taken.items())}, never))
        ok &= not never
    print("SELFTEST " + ("PASSED" if ok else "FAILED"))
    return 0 if ok else 1
