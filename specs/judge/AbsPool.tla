------------------------------ MODULE AbsPool ------------------------------
(***************************************************************************)
(* Judge for connection isolation (C08) and shutdown / thread reclamation   *)
(* (C20).  Monitor style, see AbsConn.  `cs` is the AbsConn state.          *)
(***************************************************************************)
EXTENDS Integers, Sequences, FiniteSets, TLC

V(ok, p, g) == IF ok THEN <<>> ELSE <<[p |-> p, g |-> g]>>

PInit(sc) == [dropped |-> FALSE, dropret |-> FALSE, baseline |-> -1, probes |-> 0]

\* a library thread count reported by the runtime / the kernel
Probe(s, sc, e) ==
    LET k == s.probes + 1
        s1 == [s EXCEPT !.probes = k, !.baseline = IF @ = -1 THEN e.lib ELSE @]
    IN [ s |-> s1,
         \* sc.reclaim = <<probe number, slack>>: at that probe the thread count is back at the baseline,
         \* plus at most `slack` workers that served a connection within the last idle period
         v |-> V(\A i \in 1..Len(sc.reclaim) : (sc.reclaim[i][1] = k) => e.lib <= s1.baseline + sc.reclaim[i][2], "C20", "WorkersNotReclaimed") ]

Quiescent(s, sc, e, cs) ==
    IF e.res \notin {"idle", "settled"} THEN [s |-> s, v |-> <<>>]
    ELSE
    LET starved == {c \in 1..Len(sc.conns) :
                      /\ e.ph = 0 /\ sc.drv = "d1"
                      /\ cs.fault[c] = "none"
                      /\ Len(sc.conns[c].msgs) >= 1
                      /\ cs.sent[c] >= sc.conns[c].msgs[1].he
                      /\ e.cs[c] = 0}
    IN [ s |-> s,
         v |-> V(starved = {}, "C08", "ConnectionNeverServed")
               \o V((e.ph = 3 /\ s.dropped /\ sc.drv = "d1") => e.lib = 0, "C20", "ThreadsLeftAfterDrop")
               \* dropping the server never waits for the application or for a client: when nothing can run any
               \* more, a drop that has begun has returned
               \o V(s.dropped => s.dropret, "C20", "DropDidNotReturn") ]

PStep(s, sc, e, cs) ==
    CASE e.ev = "Probe" -> Probe(s, sc, e)
      [] e.ev = "Quiescent" -> Quiescent(s, sc, e, cs)
      [] e.ev = "ServerDrop" -> [s |-> [s EXCEPT !.dropped = TRUE], v |-> <<>>]
      [] e.ev = "ServerDropped" -> [s |-> [s EXCEPT !.dropret = TRUE], v |-> <<>>]
      [] e.ev = "Connect" -> [s |-> s, v |-> V(s.dropped => ~e.ok, "C20", "AcceptedAfterDrop")]
      [] e.ev = "SockFile" -> [s |-> s, v |-> V(s.dropped => ~e.exists, "C20", "SocketFileLeft")]
      [] e.ev = "ConnThreads" -> [s |-> s, v |-> V(e.n <= 1, "C08", "ConnectionServedByTwoWorkers")]
      [] OTHER -> [s |-> s, v |-> <<>>]
=============================================================================
