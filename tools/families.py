"""Scenario families, one per property (DESIGN.md §5). Each returns a list of concrete scenarios.
Seeded: the same (tier, seed) always gives the same list."""
import itertools, random
from scn import *

def _rng(prop, seed):
    return random.Random("%s/%d" % (prop, seed))

def _sample(rng, items, k):
    items = list(items)
    if len(items) <= k:
        return items
    return rng.sample(items, k)

# ------------------------------------------------------------------------------------------------
# receivers

def R_recv(mode="inline"):
    return serve("recv", mode)

def R_iter(mode="inline"):
    return serve("iter", mode)

def R_timed_once(T, mode="inline"):
    return {"prog": [{"op": "recv", "kind": "timeout", "ms": T}, {"op": "handle", "sel": "all", "mode": mode}]}

def R_timed_loop(T, n=2, mode="inline"):
    return serve("timeout", mode, ms=T, max_empty=n)

def R_try_loop(n=3, mode="inline"):
    return serve("try", mode, max_empty=n)

def R_try_then_recv(mode="inline"):
    return {"prog": [{"op": "recv", "kind": "try"}, {"op": "handle", "sel": "all", "mode": mode},
                     {"op": "serve", "kind": "recv", "mode": mode, "max_empty": 1, "ms": 0}]}

def unblocker(at_ns, n=1):
    prog = []
    if at_ns > 0:
        prog.append({"op": "sleep", "ns": at_ns})
    for _ in range(n):
        prog.append({"op": "unblock"})
    return {"prog": prog}

def simple_conn(c, nreq, at_ns=0, gap_ns=0, plan=None, version="1.1"):
    msgs = [Msg(plan=plan or respond(200, 4), version=version, conn=("keep-alive" if version == "1.0" else None)) for _ in range(nreq)]
    d, j, n = conn(msgs, c)
    prog = []
    if at_ns > 0:
        prog.append({"op": "sleep", "ns": at_ns})
    if gap_ns == 0 or nreq == 1:
        prog.append({"op": "send", "to": n})
    else:
        for m in range(nreq):
            prog.append({"op": "send", "to": d["msgs"][m]["be"]})
            prog.append({"op": "sleep", "ns": gap_ns})
    d["prog"] = prog
    return d, j, n

# ------------------------------------------------------------------------------------------------
# C07 / C17: the request queue

def fam_c07(tier, seed):
    rng = _rng("C07", seed)
    T = 20
    offs = [0, T * MS // 2, T * MS - 300_000, T * MS - 800_000, T * MS - 1_500_000, T * MS, T * MS + 500_000]
    recvs = {
        "recv": lambda: R_recv(),
        "iter": lambda: R_iter(),
        "timed1": lambda: R_timed_once(T),
        "timedloop": lambda: R_timed_loop(T),
        "try": lambda: R_try_loop(),
        "tryrecv": lambda: R_try_then_recv(),
    }
    scs = []
    k = 0
    combos = []
    for n in (1, 2, 3):
        combos += list(itertools.combinations_with_replacement(sorted(recvs), n))
    # every receiver combination with one late request; the timing product is sampled
    plans = []
    for combo in combos:
        for off in offs:
            plans.append((combo, [(off, 1)]))
    for combo in _sample(rng, combos, 12 if tier == "quick" else len(combos)):
        for o1, o2 in _sample(rng, list(itertools.product(offs, offs)), 4 if tier == "quick" else 12):
            plans.append((combo, [(o1, 1), (o2, rng.choice([1, 2]))]))
        plans.append((combo, [(0, 3)]))
        plans.append((combo, [(offs[2], 1), (offs[2], 1), (offs[3], 1)]))
    # several receivers parked, several requests arriving together (pushes before the first woken
    # receiver re-takes the lock): always present
    burst = []
    for combo in (("recv", "recv"), ("recv", "recv", "recv"), ("iter", "recv"), ("recv", "timedloop")):
        for conns in ([(0, 2)], [(0, 3)], [(0, 1), (0, 1)], [(0, 1), (0, 1), (0, 1)], [(2 * MS, 2), (2 * MS, 1)]):
            burst.append((combo, conns))
    if tier == "quick":
        must = [p for p in plans if p[0] == ("recv", "timed1") and len(p[1]) == 1]
        plans = must + burst + _sample(rng, plans, 260)
    else:
        plans = burst + plans
    # unblock() while nobody is blocked, then requests that only polling / timed receivers will take
    extra = []
    for combo in (("trypoll",), ("trypoll", "trypoll"), ("timedloop",), ("trypoll", "timedloop")):
        for ut in (0, 2 * MS):
            for pts in ([5 * MS], [5 * MS, 6 * MS], [3 * MS, 12 * MS]):
                extra.append((combo, ut, pts))
    recvs["trypoll"] = lambda: R_try_loop(3 * T)
    # unblock() with nobody receiving, THEN requests queue up behind the token, THEN the first receive calls arrive
    for nu in (1, 2):
        for combo in (("trypoll",), ("trypoll", "trypoll"), ("timedloop",), ("try", "recv"), ("tryrecv",)):
            for nreq in (1, 2):
                apps = []
                for i, r in enumerate(combo):
                    a = R_try_then_recv() if r == "tryrecv" else (R_try_loop(4) if r == "try" else recvs[r]())
                    apps.append({"prog": [{"op": "sleep", "ns": (6 + i) * MS}] + a["prog"]})
                apps.append(unblocker(0, nu))
                cc = [simple_conn(c, 1, at_ns=3 * MS) for c in range(nreq)]
                sc = scenario("C07-b%03d" % k, "C07", cc, apps, horizon_ms=4 * T + 20, single=False)
                sc["tags"] = ["queue", "requests-behind-token", "unblock:%d" % nu, "recv:" + "+".join(combo)]
                scs.append(sc)
                k += 1
    # a timed receiver whose wake-ups are stolen by pollers and which is notified again AFTER the end of its own time
    # budget would have passed (the wait is re-armed with the whole timeout): it must still be there for later requests
    for npoll in (1, 2):
        for pts in ([15, 30, 70], [15, 30, 45, 70, 95], [10, 25, 40, 90], [19, 38, 57, 76, 110]):
            apps = [R_timed_loop(T, 8)] + [R_try_loop(48) for _ in range(npoll)]
            cc = [simple_conn(c, 1, at_ns=t * MS) for c, t in enumerate(pts)]
            sc = scenario("C07-l%03d" % k, "C07", cc, apps, horizon_ms=12 * T, single=False)
            sc["tags"] = ["queue", "stolen-then-late-wake", "demote", "pollers:%d" % npoll, "at:" + "+".join(map(str, pts))]
            scs.append(sc)
            k += 1
    for combo, ut, pts in extra:
        apps = [recvs[r]() for r in combo] + [unblocker(ut, 1)]
        cc = [simple_conn(c, 1, at_ns=t) for c, t in enumerate(pts)]
        sc = scenario("C07-u%03d" % k, "C07", cc, apps, horizon_ms=4 * T + 20, single=False)
        sc["tags"] = ["queue", "unblock-with-pollers", "recv:" + "+".join(combo)]
        scs.append(sc)
        k += 1
    # a receive call that STARTS at the very instant a request arrives: the check of the queue and the going to
    # sleep must be one critical section (explored with the systematic single-demotion scheduler, tag "demote")
    for combo in (("timed1",), ("timedloop",), ("recv",), ("iter",), ("recv", "timed1"), ("timed1", "timed1"), ("tryrecv",)):
        for x in (0, 3 * MS):
            for nreq in (1, 2):
                apps = []
                for r in combo:
                    a = recvs[r]()
                    if x:
                        a = {"prog": [{"op": "sleep", "ns": x}] + a["prog"]}
                    apps.append(a)
                cc = [simple_conn(0, nreq, at_ns=x)]
                sc = scenario("C07-i%03d" % k, "C07", cc, apps, horizon_ms=4 * T + 20)
                sc["tags"] = ["queue", "same-instant", "demote", "recv:" + "+".join(combo)]
                scs.append(sc)
                k += 1
    # unblock() lands in the give-up window of a timed receiver while other receivers are parked; a request follows:
    # it must reach one of the parked receivers (no stale token may stand in its way)
    for nparked in (1, 2, 3):
        for uoff in (T * MS - 300_000, T * MS - 800_000, T * MS):
            for roff in (T * MS + 2 * MS, T * MS - 100_000):
                apps = [recvs["timed1"]()]
                for i in range(nparked):
                    apps.append({"prog": [{"op": "sleep", "ns": MS}] + R_recv()["prog"]})
                apps.append(unblocker(uoff, 1))
                cc = [simple_conn(0, 1, at_ns=roff), simple_conn(1, 1, at_ns=roff + 3 * MS)]
                sc = scenario("C07-g%03d" % k, "C07", cc, apps, horizon_ms=4 * T + 20, single=False)
                sc["tags"] = ["queue", "unblock-in-giveup-window", "demote", "parked:%d" % nparked]
                scs.append(sc)
                k += 1
    # several pipelined requests of one connection arriving while a single timed receiver is in (or near) its
    # give-up window: it must still get them in wire order
    for combo in (("timed1",), ("timedloop",)):
        for off in (T * MS - 300_000, T * MS - 800_000, T * MS, T * MS - 1_500_000):
            for nreq in (2, 3):
                apps = [recvs[r]() for r in combo]
                cc = [simple_conn(0, nreq, at_ns=off)]
                sc = scenario("C07-p%03d" % k, "C07", cc, apps, horizon_ms=4 * T + 20, single=True)
                sc["tags"] = ["queue", "pipelined-at-giveup", "demote", "recv:" + "+".join(combo)]
                scs.append(sc)
                k += 1
    for combo, conns in plans:
        apps = [recvs[r]() for r in combo]
        cc = [simple_conn(c, nreq, at_ns=off, gap_ns=rng.choice([0, 0, 400_000])) for c, (off, nreq) in enumerate(conns)]
        sc = scenario("C07-%04d" % k, "C07", cc, apps, horizon_ms=4 * T + 20)
        sc["tags"] = ["queue", "recv:" + "+".join(combo)]
        if any(r.startswith("timed") for r in combo) and any(r in ("recv", "iter", "tryrecv") for r in combo):
            sc["tags"].append("timed-with-blocking-receiver")
        scs.append(sc)
        k += 1
    return scs

def fam_c17(tier, seed):
    rng = _rng("C17", seed)
    T = 20
    times = [0, 200_000, T * MS // 2, T * MS - 300_000, T * MS - 1_200_000, T * MS + 1_000_000, 2 * T * MS + 2_000_000]
    recvs = {
        "recv": lambda: R_recv(),
        "iter": lambda: R_iter(),
        "timed1": lambda: R_timed_once(T),
        "timedloop": lambda: R_timed_loop(T, 3),
        "try": lambda: R_try_loop(4),
        "trypoll": lambda: R_try_loop(3 * T),
    }
    combos = []
    for n in (1, 2, 3):
        combos += list(itertools.combinations_with_replacement(sorted(recvs), n))
    plans = []
    for combo in combos:
        for u in (1, 2):
            for ut in _sample(rng, list(itertools.product(times, repeat=u)), 3 if tier == "quick" else 10):
                for p in (0, 1, 2):
                    pt = [rng.choice(times) for _ in range(p)]
                    plans.append((combo, list(ut), pt))
        # no unblock at all: timing bounds of idle receivers
        plans.append((combo, [], []))
        plans.append((combo, [], [T * MS - 300_000]))
    if tier == "quick":
        plans = _sample(rng, plans, 300)
    # n back-to-back unblocks against n or n+1 parked receivers (exactly n are released)
    for combo in (("recv", "recv"), ("recv", "recv", "recv"), ("recv", "timedloop"), ("timedloop", "timedloop"), ("iter", "recv", "timedloop")):
        for nu in (2, 3):
            if nu > len(combo):
                continue
            for ut in (0, 3 * MS, T * MS // 2):
                plans.append((combo, ("burst", ut, nu), []))
                plans.append((combo, ("burst", ut, nu), [ut]))
    # a timed receiver that is woken several times for requests which pollers take first
    for combo in (("timed1", "trypoll"), ("timed1", "trypoll", "trypoll"), ("timedloop", "trypoll"), ("recv", "timed1", "trypoll")):
        for pts in ([T * MS // 4, T * MS // 2], [T * MS // 5, 2 * T * MS // 5, 3 * T * MS // 5], [T * MS // 2, T * MS // 2 + 300_000]):
            plans.append((combo, [], list(pts)))
    # spurious condvar wake-ups (allowed by std) at chosen instants: the timing bounds must survive them
    spur = []
    for combo in (("timed1",), ("timedloop",), ("recv", "timed1"), ("timed1", "timed1"), ("timed1", "try")):
        for sp in ([T * MS // 2, 3 * T * MS // 4], [T * MS // 4, T * MS // 2, T * MS - 600_000], [T * MS - 300_000], [T * MS // 2, T * MS - 1_000_000, 3 * T * MS // 2]):
            for pts in ([], [T * MS + 2_000_000]):
                spur.append((combo, sp, pts))
    scs = []
    # a timed receiver whose wait was restarted by a wake-up is woken by unblock() after its own time is
    # up (it gives up and uses the unblock up); another receiver is parked; a later receive call must wait
    for t1 in (T * MS // 2, T * MS // 4):
        for tu in (T * MS + 2 * MS, t1 + T * MS - 500_000, t1 + T * MS - 3 * MS):
            for parked in (0, 1, 2):
                for probe in ("recv", "timeout", None):
                    apps = [R_timed_once(T)]
                    for _ in range(parked):
                        apps.append({"prog": [{"op": "sleep", "ns": MS}, {"op": "serve", "kind": "recv", "mode": "inline", "max_empty": 1, "ms": 0}]})
                    apps.append({"prog": [{"op": "sleep", "ns": t1}, {"op": "spurious"}, {"op": "sleep", "ns": tu - t1}, {"op": "unblock"}]})
                    if probe:
                        apps.append({"prog": [{"op": "sleep", "ns": tu + 7 * MS}, {"op": "recv", "kind": probe, "ms": T}, {"op": "handle", "sel": "all", "mode": "inline"}]})
                    sc = scenario("C17-g%03d" % len(scs), "C17", [], apps, horizon_ms=6 * T + 20, single=False)
                    sc["tags"] = ["queue", "giveup-window", "parked:%d" % parked, "probe:%s" % probe]
                    scs.append(sc)
    # long timed receives (a quarter of a second): an unblock -- or a request -- in the middle of the wait ends it at once
    TL = 250
    for combo in (("timedL",), ("timedL", "recv"), ("timedL", "timedL"), ("timedLloop",)):
        for ut in (50 * MS, 120 * MS, 249 * MS):
            for pts in ([], [180 * MS]):
                apps = []
                for r in combo:
                    apps.append(R_timed_once(TL) if r == "timedL" else (R_timed_loop(TL, 2) if r == "timedLloop" else recvs[r]()))
                apps.append(unblocker(ut, 1))
                cc = [simple_conn(c, 1, at_ns=t) for c, t in enumerate(pts)]
                sc = scenario("C17-L%03d" % len(scs), "C17", cc, apps, horizon_ms=3 * TL + 50, single=False)
                sc["tags"] = ["queue", "long-timeout", "unblock:1", "recv:" + "+".join(combo)]
                scs.append(sc)
    # unblock() calls issued before anybody receives, then receivers that do not wait first (try_recv, or a timed call
    # that finds something queued): every token still releases exactly one call, none is swallowed with another
    # token or with a request
    def _late(a, ns):
        return {"prog": [{"op": "sleep", "ns": ns}] + a["prog"]}
    for nu in (1, 2, 3):
        for combo in (("tryrecv",), ("tryrecv", "recv"), ("try", "recv"), ("timed1", "recv"), ("tryrecv", "tryrecv", "recv"), ("timedloop", "recv", "recv")):
            for pts in ([], [0], [500_000]):
                apps = []
                for i, r in enumerate(combo):
                    a = R_try_then_recv() if r == "tryrecv" else (R_try_loop(1) if r == "try" else recvs[r]())
                    apps.append(_late(a, (1 + i) * MS))
                apps.append(unblocker(0, nu))
                cc = [simple_conn(c, 1, at_ns=t) for c, t in enumerate(pts)]
                sc = scenario("C17-t%03d" % len(scs), "C17", cc, apps, horizon_ms=6 * T + 20, single=False)
                sc["tags"] = ["queue", "tokens-before-receivers", "unblock:%d" % nu, "recv:" + "+".join(combo)]
                scs.append(sc)
    for (combo, sp, pts) in spur:
        apps = [recvs[r]() for r in combo]
        prog = []
        last = 0
        for t in sp:
            prog += [{"op": "sleep", "ns": t - last}, {"op": "spurious"}]
            last = t
        apps.append({"prog": prog})
        cc = [simple_conn(c, 1, at_ns=t) for c, t in enumerate(pts)]
        sc = scenario("C17-s%03d" % len(scs), "C17", cc, apps, horizon_ms=6 * T + 20, single=False)
        sc["tags"] = ["queue", "spurious-wakeups", "recv:" + "+".join(combo)]
        scs.append(sc)
    for k, (combo, uts, pts) in enumerate(plans):
        apps = [recvs[r]() for r in combo]
        if isinstance(uts, tuple) and uts and uts[0] == "burst":
            # one thread issuing all the unblocks back to back
            apps.append(unblocker(uts[1], uts[2]))
            uts = [uts[1]] * uts[2]
        else:
            # one unblocker thread per distinct instant (they never receive)
            for ut in uts:
                apps.append(unblocker(ut, 1))
        cc = [simple_conn(c, 1, at_ns=t) for c, t in enumerate(pts)]
        sc = scenario("C17-%04d" % k, "C17", cc, apps, horizon_ms=6 * T + 20, single=False)
        sc["tags"] = ["queue", "unblock:%d" % len(uts), "recv:" + "+".join(combo)]
        if any(r.startswith("timed") for r in combo) and any(r in ("recv", "iter") for r in combo):
            sc["tags"].append("timed-with-blocking-receiver")
        scs.append(sc)
    return scs

# ------------------------------------------------------------------------------------------------
# C08 / C20: the worker pool

def fam_c08(tier, seed):
    rng = _rng("C08", seed)
    scs = []
    k = 0
    sizes = [1, 2, 3, 4, 5, 6, 8, 16] if tier == "quick" else [1, 2, 3, 4, 5, 6, 7, 8, 9, 12, 16, 32, 64]
    for n in sizes:
        variants = ["burst", "burst-keep", "stalled-mix", "stagger"]
        for var in variants:
            cc = []
            for c in range(n):
                if var == "stalled-mix" and c % 3 == 0 and n > 1:
                    # a connection that stalls in the middle of its request head
                    d, j, ln = conn([Msg()], c)
                    d["prog"] = [{"op": "send", "to": 9}]
                    cc.append((d, j, ln))
                elif var == "burst-keep" and c % 2 == 0:
                    cc.append(simple_conn(c, 1, plan=keep()))
                elif var == "stagger":
                    cc.append(simple_conn(c, 2, at_ns=(c % 3) * 150_000, gap_ns=300_000))
                else:
                    cc.append(simple_conn(c, 1))
            apps = [R_recv(), R_recv()]
            sc = scenario("C08-%04d" % k, "C08", cc, apps, horizon_ms=1000, single=False)
            sc["tags"] = ["pool", "n:%d" % n, var] + (["burst>4"] if n > 4 else [])
            scs.append(sc)
            k += 1
    # several application threads parked in recv() (the usual worker arrangement), each of which keeps the one request
    # it gets; as many connections, each sending one request at the same instant: no connection's request may wait for
    # another connection's handler to come back
    for nthreads in (2, 3, 4, 6):
        for stagger in (0, 200_000):
            cc = [simple_conn(c, 1, at_ns=2 * MS + c * stagger, plan=keep()) for c in range(nthreads)]
            apps = [{"prog": [{"op": "recv", "kind": "recv"}, {"op": "handle", "sel": "all", "mode": "inline"}]} for _ in range(nthreads)]
            sc = scenario("C08-p%03d" % k, "C08", cc, apps, horizon_ms=1000, single=False)
            sc["tags"] = ["pool", "receivers-parked-burst", "demote", "threads:%d" % nthreads, "stagger:%d" % stagger]
            scs.append(sc)
            k += 1
    # connections that are over as far as the connection thread is concerned (last request handed out) but whose
    # handler keeps the request -- with a streamed body the thread stays behind it -- while new connections arrive
    for nheld, nnew in itertools.product([1, 2, 5], [1, 5]):
        for tag, kw in (("cl5000", dict(framing="cl", body_len=5000)), ("ch2000", dict(framing="chunked", body_len=2000, chunks=[2000])),
                        ("none", dict())):
            for ver, cn in (("1.1", "close"), ("1.0", None)):
                cc = []
                for c in range(nheld):
                    d, j, ln = conn([Msg(method="POST" if kw else "GET", version=ver, conn=cn, plan=keep(), **kw)], c)
                    cc.append((d, j, ln))
                for c in range(nheld, nheld + nnew):
                    cc.append(simple_conn(c, 1, at_ns=2 * MS))
                sc = scenario("C08-%04d" % k, "C08", cc, [R_recv(), R_recv()], horizon_ms=1000, single=False)
                sc["tags"] = ["pool", "held-last-request", tag, "v%s/%s" % (ver, cn), "n:%d+%d" % (nheld, nnew)]
                scs.append(sc)
                k += 1
    # waves around the idle period: first wave ends, workers idle / retire, second wave arrives
    for n1, n2, t2 in itertools.product([5, 8], [1, 3, 6], [4_990, 5_000, 5_010, 5_012, 5_020]):
        cc = []
        for c in range(n1):
            d, j, ln = simple_conn(c, 1)
            d["prog"] = [{"op": "send", "to": ln}, {"op": "sleep", "ns": 10 * MS}, {"op": "half"}]
            cc.append((d, j, ln))
        for c in range(n1, n1 + n2):
            cc.append(simple_conn(c, 1, at_ns=t2 * MS))
        sc = scenario("C08-%04d" % k, "C08", cc, [R_recv(), R_recv()], horizon_ms=7000, single=False)
        sc["tags"] = ["pool", "waves", "n:%d+%d" % (n1, n2)]
        scs.append(sc)
        k += 1
    return scs

def fam_c20(tier, seed):
    rng = _rng("C20", seed)
    scs = []
    k = 0
    # (a) bursts followed by idleness: the thread count returns to the baseline
    bursts = [[3], [4], [5], [8], [20], [5, 5], [8, 3, 8]] if tier == "quick" else [[3], [4], [5], [6], [8], [20], [40], [5, 5], [8, 3, 8], [20, 20, 20]]
    for bl in bursts:
        cc = []
        c = 0
        t = 2 * MS
        for b in bl:
            for _ in range(b):
                d, j, ln = simple_conn(c, 1)
                d["prog"] = [{"op": "sleep", "ns": t}, {"op": "send", "to": ln}, {"op": "sleep", "ns": 10 * MS}, {"op": "half"}]
                cc.append((d, j, ln))
                c += 1
            t += 6000 * MS
        end_ms = (t // MS) + 50
        probes = [1 * MS] + [(2 + 6000 * i + 5500) * MS for i in range(len(bl))]
        sc = scenario("C20-%04d" % k, "C20", cc, [R_recv(), R_recv()], horizon_ms=end_ms, single=False,
                      reclaim=[[i, 0] for i in range(2, 2 + len(bl))], probes_ns=probes)
        sc["tags"] = ["pool", "reclaim", "bursts:" + "+".join(map(str, bl))]
        scs.append(sc)
        k += 1
    # (a2) a burst, then a trickle of single connections less than an idle period apart: the surplus
    #      workers of the burst must still go away (only workers that actually served recently may stay)
    for burst, gap_ms, ntr in ((12, 2000, 6), (8, 3000, 4), (20, 1000, 9)):
        cc = []
        c = 0
        for _ in range(burst):
            d, j, ln = simple_conn(c, 1)
            d["prog"] = [{"op": "sleep", "ns": 2 * MS}, {"op": "send", "to": ln}, {"op": "sleep", "ns": 10 * MS}, {"op": "half"}]
            cc.append((d, j, ln))
            c += 1
        for i in range(ntr):
            d, j, ln = simple_conn(c, 1)
            d["prog"] = [{"op": "sleep", "ns": (500 + gap_ms * (i + 1)) * MS}, {"op": "send", "to": ln}, {"op": "sleep", "ns": 5 * MS}, {"op": "half"}]
            cc.append((d, j, ln))
            c += 1
        end_ms = 500 + gap_ms * ntr + 100
        # connections dispatched within one idle period before the probe may each have kept one worker busy
        slack = 5000 // gap_ms + 1
        sc = scenario("C20-%04d" % k, "C20", cc, [R_recv(), R_recv()], horizon_ms=end_ms, single=False,
                      reclaim=[[2, slack]], probes_ns=[1 * MS, end_ms * MS])
        sc["tags"] = ["pool", "reclaim", "trickle", "burst:%d" % burst]
        scs.append(sc)
        k += 1
    # (a3) the minimum workers are kept busy by long-lived connections while bursts come and go: the
    #      surplus workers of EVERY burst must be reclaimed (the count must not ratchet up)
    for nlong, bursts3 in ((4, [3, 3]), (4, [3, 3, 3]), (5, [2, 4])):
        cc = []
        c = 0
        for _ in range(nlong):
            d, j, ln = simple_conn(c, 1)
            d["prog"] = [{"op": "sleep", "ns": 2 * MS}, {"op": "send", "to": ln}]      # stays open until teardown
            cc.append((d, j, ln))
            c += 1
        t = 20
        probes = [1 * MS]
        for b in bursts3:
            for _ in range(b):
                d, j, ln = simple_conn(c, 1)
                d["prog"] = [{"op": "sleep", "ns": t * MS}, {"op": "send", "to": ln}, {"op": "sleep", "ns": 10 * MS}, {"op": "half"}]
                cc.append((d, j, ln))
                c += 1
            t += 6000
            probes.append((t - 300) * MS)
        # the long-lived connections keep `nlong` workers busy: they are not idle workers to reclaim
        sc = scenario("C20-%04d" % k, "C20", cc, [R_recv(), R_recv()], horizon_ms=t, single=False,
                      reclaim=[[i + 2, max(0, nlong - 4)] for i in range(len(bursts3))], probes_ns=probes)
        sc["tags"] = ["pool", "reclaim", "busy-minimum", "bursts:" + "+".join(map(str, bursts3))]
        scs.append(sc)
        k += 1
    # (b) drop while requests are held: they are still answered; new connections are refused
    for n, nk in itertools.product([1, 2, 5], [1, 2]):
        cc = []
        for c in range(n):
            plan = respond(200, 6, wait_phase=2) if c < nk else respond(200, 3)
            cc.append(simple_conn(c, 1, plan=plan))
        sc = scenario("C20-%04d" % k, "C20", cc, [serve("recv", "spawn"), serve("recv", "spawn")], horizon_ms=200, single=False,
                      drop_server_early=True, connect_after_drop=2)
        sc["tags"] = ["pool", "drop-while-held", "demote", "n:%d" % n]
        scs.append(sc)
        k += 1
    # (b2) connections that outlive the drop by more than the idle period: their workers go idle
    #      long after the drop and must still be reclaimed
    for n, linger_ms in itertools.product([5, 8, 12], [5500, 6500]):
        cc = []
        for c in range(n):
            plan = respond(200, 6, wait_phase=2) if c % 2 == 0 else respond(200, 3)
            d, j, ln = simple_conn(c, 1, plan=plan)
            stay = linger_ms if c > 0 else 10
            d["prog"] = [{"op": "send", "to": ln}, {"op": "phase", "k": 2}, {"op": "sleep", "ns": stay * MS}]
            cc.append((d, j, ln))
        sc = scenario("C20-%04d" % k, "C20", cc, [serve("recv", "spawn"), serve("recv", "spawn")], horizon_ms=200, single=False,
                      drop_server_early=True, connect_after_drop=1)
        sc["tags"] = ["pool", "drop-while-held", "linger", "n:%d" % n]
        scs.append(sc)
        k += 1
    # (b3) the server is dropped while a request is handed out and further requests of the same connection are
    #      still queued (never received): the drop returns at once, the held request is answered afterwards
    for nq, other in itertools.product([1, 2], [0, 1]):
        msgs = [Msg(plan=respond(200, 6, wait_phase=2))] + [Msg() for _ in range(nq)]
        cc = [conn(msgs, 0)] + [simple_conn(1 + i, 1, at_ns=2 * MS) for i in range(other)]
        apps = [{"prog": [{"op": "recv", "kind": "recv"}, {"op": "handle", "sel": "all", "mode": "spawn"}]}]
        sc = scenario("C20-%04d" % k, "C20", cc, apps, horizon_ms=200, single=False, drop_server_early=True, connect_after_drop=2)
        sc["tags"] = ["pool", "drop-while-held", "queued-behind-held", "demote", "queued:%d" % nq]
        scs.append(sc)
        k += 1
    # (b4) the held request is the LAST one of its connection and its body is streamed (the connection thread is
    #      finished with the connection except for that body): drop, refusal of new connections, late answer
    for nheld, other in itertools.product([1, 2, 5], [0, 2]):
        for tag, kw in (("cl5000", dict(framing="cl", body_len=5000)), ("ch2000", dict(framing="chunked", body_len=2000, chunks=[2000])),
                        ("expect5", dict(framing="cl", body_len=5, expect="100-continue"))):
            for ver, cn in (("1.1", "close"), ("1.0", None)):
                if (ver == "1.0" and tag != "cl5000"):
                    continue
                cc = [conn([Msg(method="POST", version=ver, conn=cn, plan=respond(200, 6, wait_phase=2), **kw)], c) for c in range(nheld)]
                cc += [simple_conn(nheld + i, 1, at_ns=1 * MS) for i in range(other)]
                sc = scenario("C20-%04d" % k, "C20", cc, [serve("recv", "spawn"), serve("recv", "spawn")], horizon_ms=200, single=False,
                              drop_server_early=True, connect_after_drop=2)
                sc["tags"] = ["pool", "drop-while-held", "held-last-request", tag, "v%s/%s" % (ver, cn), "n:%d+%d" % (nheld, other)]
                scs.append(sc)
                k += 1
    # (c) plain drop with idle / open connections
    for n in [0, 1, 4, 6]:
        cc = [simple_conn(c, 1) for c in range(n)]
        sc = scenario("C20-%04d" % k, "C20", cc, [R_recv()], horizon_ms=100, single=(n <= 1), connect_after_drop=3)
        sc["tags"] = ["pool", "drop", "demote", "n:%d" % n]
        scs.append(sc)
        k += 1
    return scs

def _full_head_storm(prop, k0, sizes=(60, 110)):
    """real sockets only: many connections that each send a COMPLETE request and are reset at once -- the server finds
    a complete head on a socket whose peer is already gone (nothing can be asked of that socket any more); outcomes
    differ from run to run (delivered or not), what is judged is that no thread panics and nothing is left behind"""
    out = []
    for n in sizes:
        cc = []
        for c in range(n):
            raw = [b"GET @URL@ HTTP/1.1\r\nHost: x\r\n\r\n", b"POST @URL@ HTTP/1.1\r\nHost: x\r\nContent-Length: 3\r\n\r\nabc",
                   b"GET @URL@ HTTP/1.0\r\n\r\n"][c % 3]
            d, j, ln = conn([Msg(cls="close", why=prop, raw_head=raw)], c)
            d["prog"] = [{"op": "send", "to": ln}, {"op": "reset"}]
            cc.append((d, j, ln))
        sc = scenario("%s-s%03d" % (prop, k0 + len(out)), prop, cc, [serve("recv", "spawn")], horizon_ms=400, single=False, transport="tcp")
        sc["tags"] = ["vanish", "reset-storm", "complete-head", "n:%d" % n]
        sc["d2only"] = True
        sc["judge"]["resonly"] = True
        out.append(sc)
    return out

# ------------------------------------------------------------------------------------------------
# C01 / C06: the writer chain

def _answer_plans(kind):
    big = 70_000
    plans = {
        "r5": lambda: respond(200, 5),
        "r1023": lambda: respond(200, 1023),
        "r1025": lambda: respond(201, 1025),
        "rbig": lambda: respond(200, big),
        "rundecl": lambda: respond(200, 3000, declared=False),
        "w0": lambda: writer([], flush="never"),
        "w1f": lambda: writer([10], flush="last"),
        "w2f": lambda: writer([700, 900], flush="each"),
        "w2n": lambda: writer([5, 2000], flush="never"),
        "w3l": lambda: writer([1200, 1, 300], flush="last"),
        "wf1": lambda: {"ans": {"how": "writer", "status": 200, "parts": [30], "flush": "last", "flush_first": True}},
        "wv2f": lambda: {"ans": {"how": "writer", "status": 200, "parts": [40, 1500], "flush": "each", "vectored": True}},
        "wv1n": lambda: {"ans": {"how": "writer", "status": 200, "parts": [12], "flush": "never", "vectored": True}},
        "drop": lambda: drop(),
        "panic": lambda: panic(),
    }
    return plans

def _failing_plans():
    """respond() with a chunked response whose own body reader fails (error / panic) after k bytes: the message is
    terminated where the reader failed, respond reports the failure, nothing else is sent for the request"""
    return {
        "rfe0": lambda: respond_failing(3000, 0), "rfe3": lambda: respond_failing(3000, 3), "rfe700": lambda: respond_failing(3000, 700),
        "rfp0": lambda: respond_failing(3000, 0, "panic"), "rfp3": lambda: respond_failing(40, 3, "panic"), "rfp700": lambda: respond_failing(3000, 700, "panic"),
    }

def fam_c01(tier, seed, prop="C01"):
    rng = _rng(prop, seed)
    plans = _answer_plans(prop)
    names = sorted(plans)
    plans.update(_failing_plans())
    # a raw writer whose first operation is a write of nothing (e.g. write_all of an empty head fragment)
    plans["we1"] = lambda: {"ans": {"how": "writer", "status": 200, "parts": [30], "flush": "last", "empty_first": True}}
    plans["we2n"] = lambda: {"ans": {"how": "writer", "status": 200, "parts": [5, 2000], "flush": "never", "empty_first": True}}
    scs = []
    k = 0
    prods = []
    for n in (2, 3):
        prods += list(itertools.product(names, repeat=n))
    prods = _sample(rng, prods, 220 if tier == "quick" else 900)
    if True:
        # the shapes behind F1 are always present
        prods += [("r5", "w0", "r5"), ("r1025", "w0", "w2n"), ("w0", "r5"), ("r5", "w0"), ("r5", "wf1"), ("r1025", "wf1", "r5"), ("w2f", "wf1")]
    # longer pipelines: several writers in a row that never write before they are dropped
    prods += [("r5", "we1"), ("r1025", "we1", "r5"), ("w2f", "we2n"), ("rbig", "we2n", "we1"), ("rundecl", "we1"),
              ("r5", "wv2f"), ("r1025", "wv1n", "r5"), ("w2f", "wv2f"), ("rbig", "wv2f", "wv1n"),
              ("r5", "w0", "w0", "r5"), ("r1025", "w0", "w0", "w2f"), ("w1f", "w0", "w0", "w0", "r5"), ("r5", "w0", "drop", "w0", "r5"), ("rbig", "w0", "w0", "rundecl")]
    # a response whose body reader fails part-way, at every position
    prods += [("rfe3",), ("rfp0",), ("rfe700", "r5"), ("rfp3", "r5"), ("r5", "rfe0", "r5"), ("r5", "rfp700", "w1f"), ("w2f", "rfe700", "drop"),
              ("r1025", "rfp3"), ("rfe0", "rfp0", "r5"), ("drop", "rfe3", "panic")]
    # (mode "spawn0": every request on its own thread, all starting at the same instant -- the scheduler alone decides
    #  how the parts of different responses interleave in time; in mode "spawn" the handlers start 1 ms apart)
    jobs = []
    for combo in prods:
        ordered = any(a == "w0" and b in ("w0", "drop") for a, b in zip(combo, combo[1:]))   # order-sensitive shapes
        for mode in ("spawn", "inline", "spawn0"):
            if mode == "spawn0" and not ordered and not (len(combo) <= 3 and any(n_ in ("w2f", "w2n", "w3l", "rbig", "rundecl", "r1025", "wf1", "wv2f", "wv1n", "we1", "we2n") for n_ in combo)):
                continue
            if mode == "spawn":
                # answer in a permuted order: delays are a permutation of 0, 1 ms, 2 ms ... (one random permutation; for
                # the order-sensitive shapes -- unused writers in a row -- every permutation, or twelve of them)
                allp = list(itertools.permutations(range(len(combo))))
                if ordered:
                    perms = allp if len(allp) <= 24 else [allp[0], allp[-1]] + _sample(rng, allp[1:-1], 10)
                else:
                    perm = list(range(len(combo)))
                    rng.shuffle(perm)
                    perms = [tuple(perm)]
                for perm in perms:
                    jobs.append((combo, mode, [p * MS for p in perm]))
            else:
                jobs.append((combo, mode, [0] * len(combo)))
    for combo, mode, delays in jobs:
        if True:
            if False:
                pass
            msgs = []
            # now and then one of the requests answered through respond() is a HEAD request (no body on the wire)
            headable = [i_ for i_, n_ in enumerate(combo) if n_ in ("r5", "r1023", "r1025", "rbig", "rundecl", "drop", "panic")]
            head_at = rng.choice(headable) if headable and rng.random() < 0.25 else -1
            for i_, (name, dl) in enumerate(zip(combo, delays)):
                p = plans[name]()
                if dl:
                    p["delay_ns"] = dl
                msgs.append(Msg(plan=p, method="HEAD" if i_ == head_at else "GET"))
            d, j, ln = conn(msgs, 0)
            late = rng.random() < 0.4 and len(combo) == 3
            if late:
                # the connection thread is still parsing the third request while earlier ones are answered
                d["prog"] = [{"op": "send", "to": d["msgs"][1]["be"]}, {"op": "sleep", "ns": 500_000}, {"op": "send", "to": ln}]
            halfclose = mode == "spawn" and len(combo) >= 2 and "panic" not in combo and (combo in (("r5", "r5"), ("r1025", "w2f"), ("w1f", "r5", "r5"), ("rbig", "r5")) or rng.random() < 0.12)
            if halfclose and not late:
                # the client has sent everything and closes its sending side while the answers are still being produced
                # (it goes on reading): the order of the responses is the order of the requests all the same
                d["prog"] = [{"op": "send", "to": ln}, {"op": "sleep", "ns": 300_000}, {"op": "half"}]
            if mode in ("spawn", "spawn0"):
                apps = [serve("recv", "spawn")]
            else:
                apps = [{"prog": [{"op": "collect", "k": len(combo), "kind": "recv"}, {"op": "handle", "sel": "all", "mode": "inline"},
                                  {"op": "serve", "kind": "recv", "mode": "inline", "max_empty": 1, "ms": 0}]}]
            sc = scenario("%s-%04d" % (prop, k), prop, [(d, j, ln)], apps, horizon_ms=100)
            sc["tags"] = ["writer-chain", mode] + ["plan:" + "+".join(combo)] + (["demote"] if mode == "spawn0" and len(combo) == 2 else []) + (["client-half-closes"] if halfclose and not late else [])
            if "w0" in combo:
                sc["tags"].append("unused-writer-dropped")
            scs.append(sc)
            k += 1
    return scs

def fam_c06(tier, seed):
    scs = fam_c01(tier, seed, prop="C06")
    # the same finishes for the methods and request headers that change how a response is framed: a dropped HEAD
    # request (with or without TE: chunked), HTTP/1.0, ... still gets exactly one well-delimited 500
    k = 0
    for fin in ("drop", "panic", "r5", "rundecl", "w1f"):
        for meth, ver, te in (("HEAD", "1.1", None), ("HEAD", "1.1", "chunked"), ("GET", "1.1", "chunked"), ("HEAD", "1.0", None),
                              ("GET", "1.0", "chunked"), ("POST", "1.1", "identity"), ("HEAD", "1.1", "identity;q=0.5, chunked")):
            for pos in (0, 1):
                plans = _answer_plans("C06")
                hs = [("Host", "verif")] + ([("TE", te)] if te else []) + ([("Connection", "keep-alive")] if ver == "1.0" else [])
                mid = Msg(method=meth, version=ver, headers=hs, plan=plans[fin]())
                msgs = ([Msg()] if pos == 1 else []) + [mid, Msg(plan=respond(200, 7))]
                d, j, ln = conn(msgs, 0)
                sc = scenario("C06-h%03d" % k, "C06", [(d, j, ln)], [serve("recv", "spawn")], horizon_ms=100)
                sc["tags"] = ["writer-chain", "framing-variants", fin, meth, "v" + ver, "te:%s" % te, "pos:%d" % pos]
                scs.append(sc)
                k += 1
    # a request whose streamed body the client has only partly sent is dropped / its handler panics / it is
    # answered without reading: the final response must not wait for the rest of the body
    k = 0
    for fin in ("drop", "panic", "respond"):
        for tag, kw in (("cl5000", dict(framing="cl", body_len=5000)), ("ch2000", dict(framing="chunked", body_len=2000, chunks=[700, 1300])),
                        ("cl1025", dict(framing="cl", body_len=1025)), ("expect5", dict(framing="cl", body_len=5, expect="100-continue"))):
            for sent in (0, 3):
                for pos in (0, 1):
                    plan = {"drop": drop, "panic": panic, "respond": lambda: respond(200, 4)}[fin]()
                    last = Msg(method="POST", plan=plan, **kw)
                    msgs = ([Msg()] if pos == 1 else []) + [last]
                    d, j, ln = conn(msgs, 0)
                    he = d["msgs"][pos]["he"]
                    d["prog"] = [{"op": "send", "to": min(he + sent, ln)}]
                    sc = scenario("C06-u%03d" % k, "C06", [(d, j, ln)], [serve("recv", "spawn")], horizon_ms=100)
                    sc["tags"] = ["writer-chain", "unsent-body", fin, tag, "sent:%d" % sent, "pos:%d" % pos]
                    scs.append(sc)
                    k += 1
    # a request whose streamed body has arrived (partly in the connection's read buffer) is dropped / its handler
    # panics / it is answered after reading a part: the request behind it still gets its own, well-formed response
    k = 0
    for fin, pl in (("drop", lambda: drop()), ("panic", lambda: panic()), ("respond", lambda: respond(204, 0)), ("writer", lambda: writer([9], flush="last"))):
        for tag, kw in (("cl3000", dict(framing="cl", body_len=3000)), ("cl1025", dict(framing="cl", body_len=1025)), ("cl70000", dict(framing="cl", body_len=70000)),
                        ("ch3000", dict(framing="chunked", body_len=3000, chunks=[1000]))):
            for upto in (0, 100, 700):
                for nfol in (1, 2):
                    first = Msg(method="POST", plan=_with_read(pl(), upto=upto, sizes=[512]), body_text=(nfol == 1), **kw)
                    d, j, ln = conn([first] + [Msg(plan=respond(200, 7)) for _ in range(nfol)], 0)
                    sc = scenario("C06-b%03d" % k, "C06", [(d, j, ln)], [serve("recv", "spawn")], horizon_ms=100)
                    sc["tags"] = ["writer-chain", "unread-body-then-successor", fin, tag, "upto%d" % upto, "followers:%d" % nfol]
                    scs.append(sc)
                    k += 1
    return scs

FAMILIES = {
    "C01": fam_c01, "C06": fam_c06, "C07": fam_c07, "C08": fam_c08, "C17": fam_c17, "C20": fam_c20,
}

# ------------------------------------------------------------------------------------------------
# connection-level families

def _single_app():
    return [serve("recv", "inline")]

def _with_read(plan, upto=None, sizes=None, to_eof=False, ask=0):
    p = dict(plan)
    if upto is not None:
        p["upto"] = upto
    if sizes:
        p["read"] = list(sizes)
    if to_eof:
        p["to_eof"] = True
    if ask:
        p["ask"] = ask
    return p

def _body_variants(tier):
    """(tag, Msg kwargs) for a request with a body"""
    v = [
        ("cl0", dict(framing="cl", body_len=0)),
        ("cl1", dict(framing="cl", body_len=1)),
        ("cl5", dict(framing="cl", body_len=5)),
        ("cl1023", dict(framing="cl", body_len=1023)),
        ("cl1024", dict(framing="cl", body_len=1024)),
        ("cl1025", dict(framing="cl", body_len=1025)),
        ("cl5000", dict(framing="cl", body_len=5000)),
        ("ch5", dict(framing="chunked", body_len=5, chunks=[5])),
        ("ch5x1", dict(framing="chunked", body_len=5, chunks=[1])),
        ("ch2000", dict(framing="chunked", body_len=2000, chunks=[700, 1, 1299])),
        ("ch1024ext", dict(framing="chunked", body_len=1024, chunks=[1000, 24], chunk_opts=dict(hexcase="upper", lead0=2, ext=";x=y"))),
        ("ch0", dict(framing="chunked", body_len=0)),
        # the name of a transfer coding is case-insensitive
        ("ch2000-Cap", dict(framing="chunked", body_len=2000, chunks=[1300, 700], te_value="Chunked")),
        ("ch5-UPPER", dict(framing="chunked", body_len=5, chunks=[2], te_value="CHUNKED")),
    ]
    if tier == "thorough":
        v += [("cl4096", dict(framing="cl", body_len=4096)), ("cl70000", dict(framing="cl", body_len=70000)),
              ("ch70000", dict(framing="chunked", body_len=70000, chunks=[8192, 100, 30000])),
              ("ch3x1000", dict(framing="chunked", body_len=3000, chunks=[1000]))]
    return v

def fam_c09(tier, seed):
    rng = _rng("C09", seed)
    scs = []
    k = 0
    finishes = {"respond": lambda: respond(200, 4), "drop": lambda: drop(), "writer": lambda: writer([7], flush="last")}
    followers = {
        "get": lambda: [Msg()],
        "post-small": lambda: [Msg(method="POST", framing="cl", body_len=9, plan=_with_read(respond(200, 3), to_eof=True))],
        "two": lambda: [Msg(), Msg(method="POST", framing="chunked", body_len=12, chunks=[5], plan=_with_read(respond(200, 2), to_eof=True))],
    }
    for tag, kw in _body_variants(tier):
        n = kw["body_len"]
        prefixes = sorted(set([0, 1, n // 2, max(n - 1, 0), n]))
        cons = [("upto%d" % p, dict(upto=p, sizes=[512])) for p in prefixes if p > 0 or True]
        cons.append(("eof", dict(sizes=[300], to_eof=True)))
        cons.append(("zero", dict(sizes=[0])))          # a single zero-length read, then the request is finished
        cons.append(("all-zero-more", dict(sizes=[max(n, 1), 0, 300, 300])))   # every byte, a zero-length read, then more reads
        cons.append(("std-vectored", dict(read_std="vectored")))                # read_vectored until it reports the end
        for (ctag, ckw), fin, fol in itertools.product(cons, sorted(finishes), sorted(followers)):
            if tier == "quick" and rng.random() > 0.35:
                continue
            # the request with the body in HTTP/1.1, HTTP/1.0 keep-alive (the connection continues) or with
            # Connection: close (what follows must never be parsed)
            ver, cn = rng.choice([("1.1", None), ("1.1", None), ("1.0", "keep-alive"), ("1.1", "keep-alive"), ("1.1", "close"), ("1.0", None)])
            first = Msg(method="POST", version=ver, conn=cn, plan=(dict(finishes[fin](), **ckw) if "read_std" in ckw else _with_read(finishes[fin](), **ckw)), **kw)
            d, j, ln = conn([first] + followers[fol](), 0)
            sc = scenario("C09-%04d" % k, "C09", [(d, j, ln)], _single_app(), horizon_ms=100)
            sc["tags"] = ["boundary", tag, ctag, fin, "follower:" + fol, "v%s/%s" % (ver, cn)]
            if ctag == "zero":
                sc["tags"].append("zero-length-read")
            if ctag == "all-zero-more":
                sc["tags"].append("zero-length-read-mid-body")
            if kw["framing"] == "chunked" and ctag != "eof":
                sc["tags"].append("chunked-body-not-read-to-eof")
            scs.append(sc)
            k += 1
    # a request that asks for a protocol upgrade (its body is the rest of the connection) but is answered like any other,
    # unread: the connection is over, what follows is never parsed as a request -- whatever the Connection list looks like
    for cv in ("upgrade", "keep-alive, Upgrade", "Upgrade, keep-alive", "foo,UPGRADE"):
        for fin in ("respond", "drop", "writer"):
            for ver in ("1.1", "1.0"):
                up = Msg(method="POST", version=ver, conn=cv, framing="upgrade", body_len=0,
                         extra_headers=[("Upgrade", "verif")], plan=finishes[fin]())
                d, j, ln = conn([up], 0, trailing=b"B" * 20 + b"GET /c0m9 HTTP/1.1\r\nHost: smuggled\r\n\r\n")
                sc = scenario("C09-%04d" % k, "C09", [(d, j, ln)], _single_app(), horizon_ms=100)
                sc["tags"] = ["boundary", "upgrade-answered-plainly", "conn:" + cv, fin, "v" + ver]
                scs.append(sc)
                k += 1
    # large bodies of which little or nothing is read (the discard has a long way to go: 70 KB, 300 KB, 1.2 MB)
    for tag, kw in (("cl70000", dict(framing="cl", body_len=70000)), ("cl300000", dict(framing="cl", body_len=300000)),
                    ("ch150000", dict(framing="chunked", body_len=150000, chunks=[60000, 1, 89999])),
                    ("cl1200000", dict(framing="cl", body_len=1_200_000))):
        if tag == "cl1200000" and tier == "quick":
            continue
        for upto in (0, 1000, kw["body_len"] - 66000):
            for fin in ("respond", "drop", "writer"):
                if tier == "quick" and (upto, fin) not in ((0, "respond"), (1000, "drop"), (kw["body_len"] - 66000, "writer"), (0, "drop")):
                    continue
                first = Msg(method="POST", plan=_with_read(finishes[fin](), upto=upto, sizes=[8192]), **kw)
                d, j, ln = conn([first, Msg(), Msg()], 0)
                sc = scenario("C09-%04d" % k, "C09", [(d, j, ln)], _single_app(), horizon_ms=100)
                sc["tags"] = ["boundary", "large-unread", tag, "upto%d" % upto, fin]
                if kw["framing"] == "chunked":
                    sc["tags"].append("chunked-body-not-read-to-eof")
                scs.append(sc)
                k += 1
    return scs

def fam_c03(tier, seed):
    rng = _rng("C03", seed)
    scs = []
    k = 0
    programs = [("one", [1]), ("seven", [7]), ("kib", [1024]), ("huge", [200000]), ("mixed", [1, 1023, 2, 4096, 3]),
                # a read into an empty buffer (which by the contract of std::io::Read says nothing about the end of the
                # stream) in the middle of the body
                ("zero-mid", [7, 0, 4096]),
                # the helpers of std an application would normally use
                ("std-read_to_end", "read_to_end"), ("std-copy", "copy"), ("std-read_to_string", "read_to_string"), ("std-vectored", "vectored"),
                ("std-vectored_then_plain", "vectored_then_plain")]
    for tag, kw in _body_variants("thorough") + [("cl300000", dict(framing="cl", body_len=300000)),
                                                 ("ch300000", dict(framing="chunked", body_len=300000, chunks=[65536, 1, 100000]))]:
        for ptag, sizes in programs:
            # (a program of tiny reads over a body of tens of KiB is tens of thousands of events per
            #  execution: the tiny-read programs are crossed with bodies up to 5000 bytes only)
            if kw["body_len"] > 6000 and ptag in ("one", "seven"):
                continue
            if ptag == "one" and kw["body_len"] > (1100 if tier == "quick" else 5000):
                continue
            if kw["body_len"] > 100000 and ptag not in ("kib", "huge", "zero-mid", "std-read_to_end", "std-copy", "std-read_to_string", "std-vectored", "std-vectored_then_plain"):
                continue
            for follow, both, case in itertools.product(["none", "request", "garbage"], [False, True, "te-first"], ["std", "lower", "upper"]):
                if both and kw["framing"] != "chunked":
                    continue
                if tier == "quick" and rng.random() > 0.3:
                    continue
                names = {"std": ("Content-Length", "Transfer-Encoding"), "lower": ("content-length", "transfer-encoding"),
                         "upper": ("CONTENT-LENGTH", "TRANSFER-ENCODING")}[case]
                rplan = dict(respond(200, 4), read_std=sizes) if isinstance(sizes, str) else _with_read(respond(200, 4), sizes=sizes, to_eof=True)
                first = Msg(method="POST", plan=rplan, cl_name=names[0],
                            te_name=names[1], both=bool(both), te_first=(both == "te-first"), **kw)
                msgs = [first] + ([Msg()] if follow == "request" else [])
                trailing = b"\x01\x02 garbage bytes\r\n\r\n" if follow == "garbage" else b""
                d, j, ln = conn(msgs, 0, trailing=trailing, trailing_cls=("r400" if trailing else None))
                sc = scenario("C03-%04d" % k, "C03", [(d, j, ln)], _single_app(), horizon_ms=100)
                sc["tags"] = ["framing", tag, "reads:" + ptag, "follow:" + follow, "names:" + case] + (["cl+te"] if both else []) + (["te-first"] if both == "te-first" else [])
                if ptag == "zero-mid":
                    sc["tags"].append("zero-length-read-mid-body")
                scs.append(sc)
                k += 1
    # no body at all, and an upgrade request (body = rest of the connection)
    for ptag, sizes in programs[:3]:
        d, j, ln = conn([Msg(plan=_with_read(respond(200, 4), sizes=sizes, to_eof=True)), Msg()], 0)
        sc = scenario("C03-%04d" % k, "C03", [(d, j, ln)], _single_app(), horizon_ms=100)
        sc["tags"] = ["framing", "nobody", "reads:" + ptag]
        scs.append(sc)
        k += 1
    for n in (0, 1, 700, 3000):
        for cv in ("upgrade", "Upgrade", "keep-alive, Upgrade", "Upgrade, keep-alive", "foo,upgrade", "UPGRADE , TE"):
            if tier == "quick" and cv != "upgrade" and n in (1, 3000) and rng.random() > 0.5:
                continue
            up = Msg(conn=cv, framing="upgrade", body_len=n, extra_headers=[("Upgrade", "verif")], plan={"ans": {"how": "upgrade", "len": 10}})
            d, j, ln = conn([up], 0)
            sc = scenario("C03-%04d" % k, "C03", [(d, j, ln)], _single_app(), horizon_ms=100)
            sc["tags"] = ["framing", "upgrade", "n:%d" % n, "conn:" + cv]
            scs.append(sc)
            k += 1
    # an upgrade request that also declares a length: the body is still the rest of the connection, the declared length is reported
    for n, cl, cv in ((0, "0", "upgrade"), (700, "0", "upgrade"), (700, "5", "Upgrade"), (3000, "0", "keep-alive, Upgrade"), (5, "700", "upgrade")):
        for name in ("Content-Length", "content-length"):
            up = Msg(conn=cv, framing="upgrade", body_len=n, extra_headers=[("Upgrade", "verif"), (name, cl)], plan={"ans": {"how": "upgrade", "len": 10}})
            d, j, ln = conn([up], 0)
            sc = scenario("C03-%04d" % k, "C03", [(d, j, ln)], _single_app(), horizon_ms=100)
            sc["tags"] = ["framing", "upgrade", "declared-length:" + cl, "n:%d" % n, "conn:" + cv]
            scs.append(sc)
            k += 1
    return scs

def fam_c11(tier, seed):
    rng = _rng("C11", seed)
    scs = []
    k = 0
    kinds = {
        "none": lambda: Msg(),
        "b0": lambda: Msg(method="POST", framing="cl", body_len=0),
        "b1": lambda: Msg(method="POST", framing="cl", body_len=1),
        "b1024": lambda: Msg(method="POST", framing="cl", body_len=1024),
        "b1025": lambda: Msg(method="POST", framing="cl", body_len=1025, plan=_with_read(respond(200, 3), sizes=[4096], to_eof=True)),
        "chunked": lambda: Msg(method="POST", framing="chunked", body_len=30, chunks=[7], plan=_with_read(respond(200, 3), sizes=[4096], to_eof=True)),
    }
    names = sorted(kinds)
    combos = []
    for n in (2, 3, 4):
        combos += list(itertools.product(names, repeat=n))
    combos = _sample(rng, combos, 70 if tier == "quick" else 500)
    combos += [tuple(["none"] * 8), ("b1024",) * 6, ("none", "b1", "b1024", "none", "b1", "b1024", "none", "b1")]
    combos += [("b1025", "none"), ("chunked", "none"), ("none", "b1025", "none"), ("b1024", "none"), ("b1025", "b1025", "none")]
    combos += [("b0", "none"), ("none", "b0", "none"), ("b0", "b0", "b1"), ("b0",) * 5]
    for combo in combos:
        small_only = all(c in ("none", "b0", "b1", "b1024") for c in combo)
        progs = []
        # (a) collect everything that can be read ahead, then answer in order
        nsmall = 0
        for c in combo:
            if c in ("none", "b0", "b1", "b1024"):
                nsmall += 1
            else:
                nsmall += 1
                break
        progs.append(("collect", [{"op": "collect", "k": nsmall, "kind": "recv"}, {"op": "handle", "sel": "all", "mode": "inline"},
                                  {"op": "serve", "kind": "recv", "mode": "inline", "max_empty": 1, "ms": 0}]))
        # (b) one at a time (large bodies are read to EOF by their plans, then the successor is awaited)
        progs.append(("serve", [{"op": "serve", "kind": "recv", "mode": "inline", "max_empty": 1, "ms": 0}]))
        # (c) read a large body to EOF but answer only at the end: the successor must still arrive
        for ptag, prog in progs:
            msgs = [kinds[c]() for c in combo]
            if ptag == "serve":
                for m, c in zip(msgs, combo):
                    if c in ("b1025", "chunked") and rng.random() < 0.5:
                        m.plan = _with_read(keep(), sizes=[4096], to_eof=True)
            d, j, ln = conn(msgs, 0)
            sc = scenario("C11-%04d" % k, "C11", [(d, j, ln)], [{"prog": prog}], horizon_ms=100)
            sc["tags"] = ["readahead", ptag, "pipe:" + "+".join(combo)] + (["small-only"] if small_only else [])
            scs.append(sc)
            k += 1
    # the body is read to its end with one of std's helpers and the request is then kept: the successor must arrive
    # (also: a buffer sized by the declared length, read_exact of the declared length and one more read, single bytes --
    #  reads that are never larger than what is left of the body)
    for helper in ("read_to_end", "read_to_string", "copy", "read_to_end_sized", "read_exact", "bytes", "vectored", "vectored_then_plain"):
        for first in ("b1025", "chunked", "b1024", "b5000"):
            if first == "chunked" and helper in ("read_to_end_sized", "read_exact"):
                continue
            for nfollow in (1, 2):
                msgs = [kinds[first]() if first != "b5000" else Msg(method="POST", framing="cl", body_len=5000)] + [Msg() for _ in range(nfollow)]
                msgs[0].plan = dict(keep(), read_std=helper) if helper != "bytes" else _with_read(keep(), sizes=[1], to_eof=True)
                d, j, ln = conn(msgs, 0)
                sc = scenario("C11-%04d" % k, "C11", [(d, j, ln)], [{"prog": [{"op": "serve", "kind": "recv", "mode": "inline", "max_empty": 1, "ms": 0}]}], horizon_ms=100)
                sc["tags"] = ["readahead", "std-read-helper", helper, "pipe:" + first + "+none" * nfollow]
                scs.append(sc)
                k += 1
    # a large body of which little or nothing has been read when the request is answered or dropped: the successors
    # become available once it is finished, however much of the body is left (70 KB, 300 KB, 1.2 MB)
    for n in (70000, 300000) + ((1_200_000,) if tier == "thorough" else ()):
        for upto in (0, 1000):
            for fin, pl in (("respond", lambda: respond(200, 3)), ("drop", lambda: drop()), ("writer", lambda: writer([7], flush="last"))):
                first = Msg(method="POST", framing="cl", body_len=n, plan=_with_read(pl(), upto=upto, sizes=[512]), body_text=(upto == 0))
                d, j, ln = conn([first, Msg(), Msg()], 0)
                sc = scenario("C11-%04d" % k, "C11", [(d, j, ln)], [{"prog": [{"op": "serve", "kind": "recv", "mode": "inline", "max_empty": 1, "ms": 0}]}], horizon_ms=100)
                sc["tags"] = ["readahead", "large-unread-finished", "n:%d" % n, "upto%d" % upto, fin]
                scs.append(sc)
                k += 1
    # several application threads already blocked in recv() (the usual worker arrangement), each keeping the request
    # it gets until the end: every request of the pipeline must reach one of them without any of them answering
    for nthreads in (2, 3, 4):
        for combo in (("none",) * 4, ("none", "b1", "b1024", "none"), ("b1",) * 3, ("none",) * 6):
            if len(combo) > nthreads + 2:
                continue
            msgs = [kinds[c]() for c in combo]
            for m in msgs:
                m.plan = keep()
            d, j, ln = conn(msgs, 0)
            # (each thread takes ONE request and keeps it: a thread that came back for more would hide a request that
            #  was queued without waking anybody)
            apps = [{"prog": [{"op": "recv", "kind": "recv"}, {"op": "handle", "sel": "all", "mode": "inline"}]} for _ in range(max(nthreads, len(combo)))]
            sc = scenario("C11-%04d" % k, "C11", [(d, j, ln)], apps, horizon_ms=100, single=False)
            sc["tags"] = ["readahead", "workers-blocked", "demote", "threads:%d" % len(apps), "pipe:" + "+".join(combo)]
            scs.append(sc)
            k += 1
    return scs

def fam_c12(tier, seed):
    rng = _rng("C12", seed)
    scs = []
    k = 0
    conns_hdr = [None, "close", "keep-alive", "Close", "KEEP-ALIVE", "upgrade", "foo", "keep-alive, close", "foo, upgrade", "Keep-Alive",
                 "keep-alive, Upgrade", "Upgrade, keep-alive", "close,keep-alive", "TE, Close"]
    # option lists longer than any fixed-size scratch buffer, the decisive option last
    filler = ", ".join("x-opt-%02d" % i for i in range(9))
    conns_hdr += ["keep-alive, " + filler + ", close", filler + ", Keep-Alive", filler + ", " + filler + ", Upgrade", filler + ", foo"]
    versions = ["1.1", "1.0"]
    cases = list(itertools.product(versions, conns_hdr))
    for n in (1, 2, 3):
        for pos in range(n):
            for ver, ch in cases:
                for trail in ("none", "request", "garbage"):
                    for half in (None, pos) if n > 1 else (None,):
                        if tier == "quick" and rng.random() > 0.22:
                            continue
                        msgs = []
                        for i in range(n):
                            if i == pos:
                                kw = {}
                                if ch is not None and "upgrade" in ch.lower():
                                    kw = dict(framing="upgrade", body_len=0)
                                msgs.append(Msg(version=ver, conn=ch, **kw))
                            else:
                                msgs.append(Msg())
                        if trail == "request":
                            msgs.append(Msg())
                        trailing = b"GARBAGE\r\n\r\n" if trail == "garbage" else b""
                        d, j, ln = conn(msgs, 0, trailing=trailing, trailing_cls=("r400" if trailing else None))
                        if half is not None:
                            d["prog"] = [{"op": "send", "to": d["msgs"][half]["be"]}, {"op": "half"}]
                        sc = scenario("C12-%04d" % k, "C12", [(d, j, ln)], _single_app(), horizon_ms=100)
                        sc["tags"] = ["persistence", "v" + ver, "conn:%s" % ch, "pos:%d/%d" % (pos, n), "trail:" + trail] + (["half"] if half is not None else [])
                        scs.append(sc)
                        k += 1
    # a connection-ending request whose (large / chunked) body is only partly sent and which the handler
    # answers without reading: the client must still see end-of-stream right after the response
    for ver, ch in (("1.1", "close"), ("1.0", None), ("1.1", "keep-alive, close")):
        for tag, kw in (("cl5000", dict(framing="cl", body_len=5000)), ("ch2000", dict(framing="chunked", body_len=2000, chunks=[700, 1300])),
                        ("cl1025", dict(framing="cl", body_len=1025))):
            for sent in (0, 3, 600):
                for pos in (0, 1):
                    last = Msg(method="POST", version=ver, conn=ch, plan=respond(200, 4), **kw)
                    msgs = ([Msg()] if pos == 1 else []) + [last]
                    d, j, ln = conn(msgs, 0)
                    he = d["msgs"][pos]["he"]
                    d["prog"] = [{"op": "send", "to": min(he + sent, ln)}]
                    sc = scenario("C12-%04d" % k, "C12", [(d, j, ln)], _single_app(), horizon_ms=100)
                    sc["tags"] = ["persistence", "last-with-unsent-body", "v" + ver, "conn:%s" % ch, tag, "sent:%d" % sent]
                    scs.append(sc)
                    k += 1
    scs += connloop_scenarios(tier, seed, "C12")
    return scs

# ------------------------------------------------------------------------------------------------
# pipelines generated by TLC from mech/ConnLoop (specification -> implementation): every pipeline of 1..2 (quick) /
# 1..3 (thorough) messages over version x Connection class and the rejected classes, with the reference outcome
# of every message.  The concretiser spells the classes with seeded bytes and REFUSES to continue if the
# judge-level description derived from the bytes (class, "ends the connection") disagrees with TLC's reference.

_CON_SPELL = {
    (False, False, False, False): [None],
    (True, True, False, False): ["close", "Close", "CLOSE", "foo, close", "close, TE"],
    (True, False, False, True): ["keep-alive", "Keep-Alive", "KEEP-ALIVE, foo"],
    (True, False, True, False): ["upgrade", "Upgrade", "foo, UPGRADE"],
    (True, False, False, False): ["foo", "TE", "x-y, z"],
    (True, True, False, True): ["keep-alive, close", "Close, Keep-Alive"],
    (True, False, True, True): ["keep-alive, Upgrade", "Upgrade, keep-alive", "Keep-Alive,upgrade"],
}

def connloop_scenarios(tier, seed, prop):
    import props, json as _json, os as _os
    import vlib as _vlib
    rng = _rng("connloop/" + prop, seed)
    gen = _os.path.join(_vlib.WORK, "connloop")
    _os.makedirs(gen, exist_ok=True)
    path = _os.path.join(gen, "outcomes.%s.%s.ndjson" % (prop, tier))
    rc, out, wall = _vlib.tlc("connloop_gen_" + prop, "ConnLoop_gen.cfg", "MC_ConnLoop.tla", _os.path.join(_vlib.SPECS, "mc"), workers=1, timeout=900,
                              env={"CL_OUT": path, "CL_TIER": tier})
    if "No error has been found" not in out:
        raise _vlib.ToolError("ConnLoop generation failed:\n" + out[-2000:])
    recs = [_json.loads(l) for l in open(path)]
    bad = _bad_heads()
    by_cls = {}
    for tag, cls, raw in bad:
        by_cls.setdefault(cls, []).append((tag, raw))
    scs = []
    for r in recs:
        rejecting = any(m["cls"] != "ok" for m in r["wire"])
        if (prop == "C10") != rejecting:
            continue
        msgs = []
        for m in r["wire"]:
            if m["cls"] == "ok":
                c = m["con"]
                ch = rng.choice(_CON_SPELL[(c["present"], c["close"], c["upgrade"], c["keepalive"])])
                kw = {}
                if ch is not None and "upgrade" in ch.lower():
                    kw = dict(framing="upgrade", body_len=0)
                msgs.append(Msg(version=m["ver"], conn=ch, **kw))
            else:
                cls = {"bin": "close"}.get(m["cls"], m["cls"])
                cands = by_cls[cls]
                if cls == "r417":
                    v10 = [x for x in cands if b"HTTP/1.0" in x[1]]
                    v11 = [x for x in cands if b"HTTP/1.1" in x[1] and not x[0].startswith("expect-body-withheld") and x[0] != "expect-with-body"]
                    cands = v10 if m["ver"] == "1.0" else v11
                elif cls == "r505":
                    cands = [x for x in cands if b"Content-Length" not in x[1] and b"chunked" not in x[1]]
                tag, raw = rng.choice(cands)
                msgs.append(Msg(cls=cls, why="C10", raw_head=raw))
        d, j, ln = conn(msgs, 0)
        # the judge-level description derived from the bytes must be the specification's reference outcome
        for k, (jm, ref, wm) in enumerate(zip(j["msgs"], r["msgs"], r["wire"])):
            want_cls = {"bin": "close"}.get(wm["cls"], wm["cls"])
            if jm["cls"] != want_cls or (wm["cls"] == "ok" and ref["interpreted"] and bool(jm["last"]) != bool(ref["ends"])):
                raise _vlib.ToolError("concretiser and mech/ConnLoop disagree on message %d of %s: %s vs %s" % (k, _json.dumps(r["wire"]), jm, ref))
        if r["halfclose"]:
            d["prog"] = [{"op": "send", "to": ln}, {"op": "half"}]
        sc = scenario("%s-L%04d" % (prop, len(scs)), prop, [(d, j, ln)], _single_app(), horizon_ms=100)
        sc["tags"] = ["connloop", "tlc-generated", "last:%d" % r["last"]] + (["half"] if r["halfclose"] else [])
        sc["ref"] = {"delivered": [bool(x["delivered"]) for x in r["msgs"]], "status": [x["status"] for x in r["msgs"]], "closes": bool(r["closes"])}
        scs.append(sc)
    return scs

def _bad_heads():
    """(tag, cls, raw head with @URL@, why)"""
    return [
        ("two-fields", "r400", b"GET @URL@\r\nHost: x\r\n\r\n"),
        ("one-field", "r400", b"GET\r\nHost: x\r\n\r\n"),
        ("ver-1.2", "r400", b"GET @URL@ HTTP/1.2\r\nHost: x\r\n\r\n"),
        ("ver-lower", "r400", b"GET @URL@ http/1.1\r\nHost: x\r\n\r\n"),
        ("ver-garbage", "r400", b"GET @URL@ FOO\r\nHost: x\r\n\r\n"),
        ("ver-http11", "r400", b"GET @URL@ HTTP/11\r\nHost: x\r\n\r\n"),
        # tokens that only a numeric reading would take for a recognised version
        ("ver-01.1", "r400", b"GET @URL@ HTTP/01.1\r\nHost: x\r\n\r\n"),
        ("ver-1.01", "r400", b"GET @URL@ HTTP/1.01\r\nHost: x\r\n\r\n"),
        ("ver-plus", "r400", b"GET @URL@ HTTP/+1.1\r\nHost: x\r\n\r\n"),
        ("ver-1.plus0", "r400", b"GET @URL@ HTTP/1.+0\r\nHost: x\r\n\r\n"),
        ("ver-02.0", "r400", b"GET @URL@ HTTP/02.0\r\nHost: x\r\n\r\n"),
        ("ver-1.1.0", "r400", b"GET @URL@ HTTP/1.1.0\r\nHost: x\r\n\r\n"),
        ("ver-1", "r400", b"GET @URL@ HTTP/1\r\nHost: x\r\n\r\n"),
        ("ver-1.10", "r400", b"GET @URL@ HTTP/1.10\r\nHost: x\r\n\r\n"),
        ("ver-1.1x", "r400", b"GET @URL@ HTTP/1.1x\r\nHost: x\r\n\r\n"),
        ("ver-mixed-case", "r400", b"GET @URL@ Http/1.1\r\nHost: x\r\n\r\n"),
        ("ver-2", "r400", b"GET @URL@ HTTP/2\r\nHost: x\r\n\r\n"),
        ("ver-4.0", "r400", b"GET @URL@ HTTP/4.0\r\nHost: x\r\n\r\n"),
        ("no-colon", "r400", b"GET @URL@ HTTP/1.1\r\nHost x\r\n\r\n"),
        ("no-colon-2nd", "r400", b"GET @URL@ HTTP/1.1\r\nHost: x\r\nBroken\r\n\r\n"),
        # a header line that consists of whitespace only is a header line without a colon, not the end of the head
        ("ws-only-line-last", "r400", b"GET @URL@ HTTP/1.1\r\nHost: x\r\n \r\n\r\n"),
        ("ws-only-line-mid", "r400", b"GET @URL@ HTTP/1.1\r\nHost: x\r\n\t\r\nX-After: 1\r\n\r\n"),
        ("ws-only-line-first", "r400", b"POST @URL@ HTTP/1.1\r\n  \t \r\nHost: x\r\nContent-Length: 5\r\n\r\nhello"),
        ("nonascii-line", "close", b"GET @URL@\xc3\xa9 HTTP/1.1\r\nHost: x\r\n\r\n"),
        ("nonascii-name", "close", b"GET @URL@ HTTP/1.1\r\nH\xf6st: x\r\n\r\n"),
        ("nonascii-value", "close", b"GET @URL@ HTTP/1.1\r\nHost: \xff\xfe\r\n\r\n"),
        ("expect-bad", "r417", b"GET @URL@ HTTP/1.1\r\nHost: x\r\nExpect: 200-ok\r\n\r\n"),
        ("expect-empty", "r417", b"GET @URL@ HTTP/1.1\r\nHost: x\r\nExpect: \r\n\r\n"),
        ("expect-case", "r417", b"GET @URL@ HTTP/1.1\r\nHost: x\r\nEXPECT: 100-Continues\r\n\r\n"),
        ("expect-bad-v10", "r417", b"GET @URL@ HTTP/1.0\r\nHost: x\r\nConnection: keep-alive\r\nExpect: 200-ok\r\n\r\n"),
        ("expect-case-v10", "r417", b"POST @URL@ HTTP/1.0\r\nexpect: 100-CONTINUE-please\r\nContent-Length: 0\r\n\r\n"),
        ("expect-param", "r417", b"GET @URL@ HTTP/1.1\r\nHost: x\r\nExpect: 100-continue;q=1\r\n\r\n"),
        ("expect-param-case", "r417", b"POST @URL@ HTTP/1.1\r\nHost: x\r\nExpect: 100-Continue; foo=bar\r\nContent-Length: 0\r\n\r\n"),
        ("expect-param-ws", "r417", b"GET @URL@ HTTP/1.1\r\nHost: x\r\nExpect: 100-CONTINUE ;timeout=5\r\n\r\n"),
        ("expect-list-same", "r417", b"GET @URL@ HTTP/1.1\r\nHost: x\r\nExpect: 100-continue, 100-continue\r\n\r\n"),
        ("expect-list-foreign", "r417", b"GET @URL@ HTTP/1.1\r\nHost: x\r\nExpect: 100-continue, 200-ok\r\n\r\n"),
        ("expect-quoted", "r417", b"GET @URL@ HTTP/1.1\r\nHost: x\r\nExpect: \"100-continue\"\r\n\r\n"),
        ("expect-with-body", "r417", b"POST @URL@ HTTP/1.1\r\nHost: x\r\nExpect: nope\r\nContent-Length: 3\r\n\r\nabc"),
        # the refusal must not wait for a body the client is holding back until it has the verdict
        ("expect-body-withheld-5", "r417", b"POST @URL@ HTTP/1.1\r\nHost: x\r\nExpect: nope\r\nContent-Length: 5\r\n\r\n"),
        ("expect-body-withheld-1024", "r417", b"POST @URL@ HTTP/1.1\r\nHost: x\r\nContent-Length: 1024\r\nExpect: 100-continue, nope\r\n\r\n"),
        ("expect-body-withheld-5000", "r417", b"PUT @URL@ HTTP/1.1\r\nHost: x\r\nExpect: 101-switch\r\nContent-Length: 5000\r\n\r\n"),
        ("expect-body-withheld-chunked", "r417", b"POST @URL@ HTTP/1.1\r\nHost: x\r\nExpect: nope\r\nTransfer-Encoding: chunked\r\n\r\n"),
        ("expect-body-withheld-v10", "r417", b"POST @URL@ HTTP/1.0\r\nConnection: keep-alive\r\nExpect: nope\r\nContent-Length: 7\r\n\r\n"),
        ("no-colon-v10", "r400", b"GET @URL@ HTTP/1.0\r\nConnection keep-alive\r\n\r\n"),
        ("nonascii-v10", "close", b"GET @URL@ HTTP/1.0\r\nX: \xe9\r\n\r\n"),
        ("empty-line-first", "r400", b"\r\nGET @URL@ HTTP/1.1\r\nHost: x\r\n\r\n"),
        ("http2", "r505", b"GET @URL@ HTTP/2.0\r\nHost: x\r\n\r\n"),
        ("http2-body", "r505", b"POST @URL@ HTTP/2.0\r\nHost: x\r\nContent-Length: 4\r\n\r\nabcd"),
        ("http3", "r505", b"GET @URL@ HTTP/3.0\r\nHost: x\r\n\r\n"),
        # (what a request that is refused for its version says about the connection does not count: the connection stays usable)
        ("http2-close", "r505", b"GET @URL@ HTTP/2.0\r\nHost: x\r\nConnection: close\r\n\r\n"),
        ("http3-upgrade", "r505", b"GET @URL@ HTTP/3.0\r\nConnection: keep-alive, Upgrade\r\nUpgrade: x\r\n\r\n"),
        ("http2-close-body", "r505", b"POST @URL@ HTTP/2.0\r\nConnection: Close\r\nContent-Length: 3\r\n\r\nabc"),
    ]

def fam_c10(tier, seed):
    rng = _rng("C10", seed)
    scs = []
    k = 0
    for tag, cls, raw in _bad_heads():
        for n in (1, 2, 3, 4):
            for pos in range(n):
                for speed in ("fast", "slow"):
                    if n == 1 and speed == "slow":
                        continue
                    if tier == "quick" and n >= 3 and rng.random() > 0.4:
                        continue
                    msgs = []
                    for i in range(n):
                        if i == pos:
                            msgs.append(Msg(cls=cls, why="C10", raw_head=raw))
                        else:
                            p = respond(200, 6)
                            if speed == "slow":
                                p["delay_ns"] = 3 * MS
                            msgs.append(Msg(plan=p))
                    d, j, ln = conn(msgs, 0)
                    sc = scenario("C10-%04d" % k, "C10", [(d, j, ln)], [serve("recv", "spawn")], horizon_ms=100)
                    sc["tags"] = ["reject", tag, cls, "pos:%d/%d" % (pos, n), speed]
                    if cls == "r505":
                        sc["tags"].append("version-above-1.1")
                    scs.append(sc)
                    k += 1
    for sc in connloop_scenarios(tier, seed, "C10"):
        if any(m.get("cls") == "r505" for m in sc["judge"]["conns"][0]["msgs"]):
            sc["tags"].append("version-above-1.1")
        scs.append(sc)
    return scs

def fam_c16(tier, seed):
    rng = _rng("C16", seed)
    heads = []
    for hname, hval in (("Content-Length", "5"), ("Transfer-Encoding", "chunked"), ("X-Other", "v")):
        for ws in (" ", "\t"):
            heads.append(("ws-before-name:%s:%r" % (hname, ws), "GET @URL@ HTTP/1.1\r\nHost: x\r\n%s%s: %s\r\n\r\n" % (ws, hname, hval), "leading-ws"))
            heads.append(("ws-in-name:%s:%r" % (hname, ws), "GET @URL@ HTTP/1.1\r\nHost: x\r\n%s%s%s: %s\r\n\r\n" % (hname[:3], ws, hname[3:], hval), "name-ws"))
            heads.append(("ws-before-colon:%s:%r" % (hname, ws), "GET @URL@ HTTP/1.1\r\nHost: x\r\n%s%s: %s\r\n\r\n" % (hname, ws, hval), "name-ws"))
            heads.append(("ws-first-header:%s:%r" % (hname, ws), "GET @URL@ HTTP/1.1\r\n%s%s: %s\r\nHost: x\r\n\r\n" % (ws, hname, hval), "leading-ws"))
    # an invalid Content-Length stays invalid whatever else the request says (upgrade, close, Expect, HTTP/1.0)
    for tag, val in (("empty", ""), ("plus", "+5"), ("alpha", "abc"), ("list", "5, 5"), ("overflow", "9" * 25)):
        for xtag, extra, ver in (("upgrade", "Connection: upgrade\r\nUpgrade: x\r\n", "1.1"), ("upgrade-list", "Connection: keep-alive, Upgrade\r\nUpgrade: x\r\n", "1.1"),
                                 ("close", "Connection: close\r\n", "1.1"), ("expect", "Expect: 100-continue\r\n", "1.1"), ("v10", "Connection: keep-alive\r\n", "1.0"),
                                 # (a version the server does not speak: the request is refused for its framing all the same -- a 505 would
                                 #  be followed by reading on)
                                 ("v20", "", "2.0"), ("v30", "Connection: keep-alive\r\n", "3.0")):
            heads.append(("cl-%s+%s" % (tag, xtag), "POST @URL@ HTTP/%s\r\nHost: x\r\n%sContent-Length: %s\r\n\r\n" % (ver, extra, val), "bad-content-length"))
    for ws in (" ", "\t", "  \t "):
        heads.append(("ws-only-line-before-cl:%r" % ws, "POST @URL@ HTTP/1.1\r\nHost: x\r\n%s\r\nContent-Length: 5\r\n\r\n" % ws, "leading-ws"))
        heads.append(("ws-only-line-last:%r" % ws, "GET @URL@ HTTP/1.1\r\nHost: x\r\n%s\r\n\r\n" % ws, "leading-ws"))
        heads.append(("ws-only-line-first:%r" % ws, "GET @URL@ HTTP/1.1\r\n%s\r\nHost: x\r\n\r\n" % ws, "leading-ws"))
    for tag, val in (("empty", ""), ("plus", "+5"), ("minus", "-5"), ("digits-alpha", "5a"), ("alpha-digits", "a5"), ("list", "5, 5"),
                     ("spaces", "5 5"), ("hex", "0x10"), ("overflow", "9" * 25), ("alpha", "abc"), ("float", "5.0"),
                     ("overflow-by-one", "18446744073709551616"), ("overflow-wraps-to-5", "18446744073709551621"),
                     ("overflow-20-digits", "99999999999999999999"), ("overflow-21-digits", "184467440737095516160")):
        heads.append(("cl-" + tag, "POST @URL@ HTTP/1.1\r\nHost: x\r\nContent-Length: %s\r\n\r\n" % val, "bad-content-length"))
    # an invalid Content-Length next to a valid one (either order), or next to Transfer-Encoding (either order): whichever
    # header this server frames the body with, another parser may pick the other one
    for tag, val in (("plus", "+5"), ("alpha", "abc"), ("list", "5, 5"), ("empty", ""), ("overflow", "9" * 25), ("digits-alpha", "5x"),
                     ("overflow-20-digits", "99999999999999999999"), ("overflow-by-one", "18446744073709551616")):
        heads.append(("cl-%s-then-valid" % tag, "POST @URL@ HTTP/1.1\r\nHost: x\r\nContent-Length: %s\r\nContent-Length: 5\r\n\r\n" % val, "bad-content-length"))
        heads.append(("cl-valid-then-%s" % tag, "POST @URL@ HTTP/1.1\r\nHost: x\r\nContent-Length: 5\r\ncontent-length: %s\r\n\r\n" % val, "bad-content-length"))
        heads.append(("cl-%s-then-te" % tag, "POST @URL@ HTTP/1.1\r\nHost: x\r\nContent-Length: %s\r\nTransfer-Encoding: chunked\r\n\r\n" % val, "bad-content-length"))
        heads.append(("te-then-cl-%s" % tag, "POST @URL@ HTTP/1.1\r\nHost: x\r\nTransfer-Encoding: chunked\r\nContent-Length: %s\r\n\r\n" % val, "bad-content-length"))
    scs = []
    k = 0
    smuggled = b"hello"
    for tag, raw, kind in heads:
        for n in (1, 2, 3):
            for pos in range(n):
                if tier == "quick" and n == 3 and rng.random() > 0.5:
                    continue
                msgs = []
                for i in range(n):
                    if i == pos:
                        msgs.append(Msg(cls="r400", why="C16", raw_head=raw.encode("latin1")))
                    else:
                        msgs.append(Msg())
                # after the rejected head: five body-looking bytes and a would-be smuggled request
                d, j, ln = conn(msgs[:pos + 1], 0, trailing=smuggled + b"GET /c0m9 HTTP/1.1\r\nHost: smuggled\r\n\r\n")
                if pos + 1 < n:
                    pass
                # requests before the bad one only (what follows it must never be parsed)
                sc = scenario("C16-%04d" % k, "C16", [(d, j, ln)], _single_app(), horizon_ms=100)
                sc["tags"] = ["smuggling", tag, kind, "pos:%d" % pos]
                scs.append(sc)
                k += 1
    # every arrangement of up to three framing headers (Transfer-Encoding, Content-Length of each value class, others),
    # generated by TLC from HeadSyntax!FramingHeads with the reference class (FramingClass) and framing (FramedBy)
    import props as _props, json as _json, os as _os, vlib as _vlib
    gen = _os.path.join(_vlib.WORK, "C16gen")
    _os.makedirs(gen, exist_ok=True)
    gpath = _os.path.join(gen, "heads.ndjson")
    _props.fn_tlc("genC16", tier, gpath, "/dev/null", "fn_genC16")
    badval = {"empty": "", "plus": "+5", "alpha": "abc", "mixed": "5x", "list": "5, 5", "overflow": "9" * 25}
    clnames = ["Content-Length", "content-length", "CONTENT-LENGTH"]
    for rec in (_json.loads(l) for l in open(gpath)):
        lines = []
        for i, h in enumerate(rec["hs"]):
            if h == "te":
                lines.append((["Transfer-Encoding", "transfer-encoding", "TRANSFER-ENCODING"][i], "chunked"))
            elif h == "other":
                lines.append(("X-Other-%d" % i, "5x"))
            else:
                c = h.split(":")[1]
                # (beyond usize::MAX in several shapes: 25 digits, exactly 20 digits, 2^64, 2^64 with leading zeros)
                oval = ["9" * 25, "99999999999999999999", "18446744073709551616", "000018446744073709551616"][(i + len(rec["hs"])) % 4]
                lines.append((clnames[i], "5" if c == "valid" else (oval if c == "overflow" else badval[c])))
        tag = "+".join(rec["hs"])
        if rec["cls"] == "r400":
            gver = "1.1"
            if len(rec["hs"]) >= 2 and rng.random() < 0.3:
                gver = rng.choice(["2.0", "3.0", "1.0"])
                tag += "+v" + gver
            raw = ("POST @URL@ HTTP/%s\r\nHost: x\r\n" % gver) + "".join("%s: %s\r\n" % nv for nv in lines) + "\r\n"
            for pos in (0, 1):
                if pos == 1 and (tier == "quick" and rng.random() > 0.25):
                    continue
                msgs = ([Msg()] if pos else []) + [Msg(cls="r400", why="C16", raw_head=raw.encode("latin1"))]
                d, j, ln = conn(msgs, 0, trailing=smuggled + b"GET /c0m9 HTTP/1.1\r\nHost: smuggled\r\n\r\n")
                sc = scenario("C16-g%04d" % k, "C16", [(d, j, ln)], _single_app(), horizon_ms=100)
                sc["tags"] = ["smuggling", "generated-framing-headers", "bad-content-length", tag, "pos:%d" % pos]
                scs.append(sc)
                k += 1
        else:
            kw = {"chunked": dict(framing="chunked", body_len=5, chunks=[3]), "cl": dict(framing="cl", body_len=5), "none": dict()}[rec["by"]]
            m = Msg(method="POST", headers=[("Host", "x")] + lines, plan=_with_read(respond(200, 2), sizes=[64], to_eof=True), **kw)
            d, j, ln = conn([m, Msg()], 0)
            sc = scenario("C16-g%04d" % k, "C16", [(d, j, ln)], _single_app(), horizon_ms=100)
            sc["tags"] = ["smuggling", "generated-framing-headers", "accepted", tag]
            scs.append(sc)
            k += 1
    # accepted forms must keep working (no over-rejection): "5", "05", " 5 "
    for val in ("5", "05", " 5 ", "0"):
        n = int(val.strip())
        m = Msg(method="POST", headers=[("Host", "x"), ("Content-Length", val)], framing="cl", body_len=n, plan=_with_read(respond(200, 2), sizes=[64], to_eof=True))
        d, j, ln = conn([m, Msg()], 0)
        sc = scenario("C16-%04d" % k, "C16", [(d, j, ln)], _single_app(), horizon_ms=100)
        sc["tags"] = ["smuggling", "accepted-cl:%r" % val]
        scs.append(sc)
        k += 1
    return scs

def fam_c18(tier, seed):
    rng = _rng("C18", seed)
    scs = []
    k = 0
    expects = [None, "100-continue", "100-Continue", "100-CONTINUE"]
    lens = [0, 5, 1024, 1025]
    progs = {
        "noask": lambda n: respond(200, 3),
        "ask1": lambda n: _with_read(respond(200, 3), ask=1),
        "ask3": lambda n: _with_read(respond(200, 3), ask=3),
        "readall": lambda n: _with_read(respond(200, 3), sizes=[600], to_eof=True),
        "partial": lambda n: _with_read(respond(200, 3), sizes=[2], upto=min(2, n)),
        "drop-noask": lambda n: drop(),
    }
    for exp, n, pname, pos in itertools.product(expects, lens, sorted(progs), (0, 1)):
        if tier == "quick" and rng.random() > 0.6:
            continue
        m = Msg(method="POST", framing="cl", body_len=n, expect=exp, plan=progs[pname](n))
        msgs = ([Msg()] if pos == 1 else []) + [m]
        d, j, ln = conn(msgs, 0)
        me = d["msgs"][pos]
        if exp is not None and n > 0:
            # the client withholds the body until it has seen the interim response (or the final one)
            d["prog"] = [{"op": "send", "to": me["he"]}, {"op": "await", "frames": pos + 1}, {"op": "send", "to": ln}]
        sc = scenario("C18-%04d" % k, "C18", [(d, j, ln)], _single_app(), horizon_ms=100)
        sc["tags"] = ["continue", "expect:%s" % exp, "len:%d" % n, pname, "pos:%d" % pos]
        scs.append(sc)
        k += 1
    # after the interim response the client sends the body in several pieces, with pauses: every byte is still read
    for n in (5, 11, 1024, 1025, 3000):
        for exp in ("100-continue", None):
            for pname, mk in (("readall", lambda: _with_read(respond(200, 3), sizes=[600], to_eof=True)),
                              ("read_to_end", lambda: dict(respond(200, 3), read_std="read_to_end")),
                              ("ask-then-readall", lambda: _with_read(respond(200, 3), ask=2, sizes=[7], to_eof=True))):
                m = Msg(method="POST", framing="cl", body_len=n, expect=exp, plan=mk())
                d, j, ln = conn([m, Msg()], 0)
                me = d["msgs"][0]
                prog = [{"op": "send", "to": me["he"]}]
                if exp is not None:
                    prog.append({"op": "await", "frames": 1})
                third = max(1, n // 3)
                prog += [{"op": "send", "to": me["he"] + third}, {"op": "sleep", "ns": MS}, {"op": "send", "to": me["he"] + 2 * third},
                         {"op": "sleep", "ns": 2 * MS}, {"op": "send", "to": ln}]
                d["prog"] = prog
                sc = scenario("C18-%04d" % k, "C18", [(d, j, ln)], _single_app(), horizon_ms=100)
                sc["tags"] = ["continue", "body-in-pieces", "expect:%s" % exp, "len:%d" % n, pname]
                scs.append(sc)
                k += 1
    # two requests with an expectation on one connection, each handled on its own thread; the first is read to its end
    # (which lets the second be parsed and delivered) but answered late: the second one's 100 Continue must wait for its
    # turn behind the first final response -- a client reads interim responses as belonging to the next final one
    for n1, n2 in ((5, 5), (1025, 5), (5, 2000), (0, 5)):
        for late in (1, 0):
            p1 = dict(_with_read(respond(200, 3), sizes=[600], to_eof=True), ans_phase=late)
            p2 = _with_read(respond(200, 4), sizes=[600], to_eof=True)
            m1 = Msg(method="POST", framing="cl", body_len=n1, expect="100-continue", plan=p1)
            m2 = Msg(method="POST", framing="cl", body_len=n2, expect="100-Continue", plan=p2)
            d, j, ln = conn([m1, m2], 0)
            a, b = d["msgs"]
            prog = [{"op": "send", "to": a["he"]}]
            if n1 > 0:
                prog += [{"op": "await", "frames": 1}, {"op": "send", "to": a["be"]}]
            prog += [{"op": "send", "to": b["he"]}, {"op": "await", "frames": 3 if n1 > 0 else 2}, {"op": "send", "to": ln}]
            d["prog"] = prog
            sc = scenario("C18-%04d" % k, "C18", [(d, j, ln)], [serve("recv", "spawn")], horizon_ms=100)
            sc["tags"] = ["continue", "two-expectations", "len:%d+%d" % (n1, n2), "late:%d" % late]
            scs.append(sc)
            k += 1
    # chunked bodies, and handlers that ask for the body and only go on (read, answer) much later: the interim
    # response must be there as soon as the body has been asked for, whatever the framing and the length
    for exp in ("100-continue", "100-Continue", None):
        for tag, kw in (("cl0", dict(framing="cl", body_len=0)), ("cl5", dict(framing="cl", body_len=5)), ("cl2000", dict(framing="cl", body_len=2000)),
                        ("ch7", dict(framing="chunked", body_len=7, chunks=[4])), ("ch0", dict(framing="chunked", body_len=0)),
                        ("ch3000", dict(framing="chunked", body_len=3000, chunks=[1000]))):
            for pname, mk in (("ask-hold-read", lambda: dict(_with_read(respond(200, 3), ask=1, sizes=[600], to_eof=True), hold_phase=1)),
                              ("ask-hold", lambda: dict(_with_read(respond(200, 3), ask=1), hold_phase=1)),
                              ("readall", lambda: _with_read(respond(200, 3), sizes=[600], to_eof=True))):
                for pos in (0, 1):
                    if tier == "quick" and rng.random() > 0.5:
                        continue
                    m = Msg(method="POST", expect=exp, plan=mk(), **kw)
                    msgs = ([Msg()] if pos == 1 else []) + [m]
                    d, j, ln = conn(msgs, 0)
                    me = d["msgs"][pos]
                    if exp is not None and kw["body_len"] > 0 or (exp is not None and kw["framing"] == "chunked"):
                        d["prog"] = [{"op": "send", "to": me["he"]}, {"op": "await", "frames": pos + 1}, {"op": "send", "to": ln}]
                    sc = scenario("C18-%04d" % k, "C18", [(d, j, ln)], _single_app(), horizon_ms=100)
                    sc["tags"] = ["continue", "expect:%s" % exp, tag, pname, "pos:%d" % pos]
                    scs.append(sc)
                    k += 1
    # the same for an HTTP/1.0 request (the statement makes no exception for it): with and without keep-alive
    for n, pname, cn in itertools.product((0, 5, 1024, 3000), ("readall", "ask1", "noask", "partial"), ("keep-alive", None)):
        m = Msg(method="POST", version="1.0", conn=cn, framing="cl", body_len=n, expect="100-continue" if n != 1024 else "100-Continue", plan=progs[pname](n))
        msgs = [m] + ([Msg(version="1.0")] if cn else [])
        d, j, ln = conn(msgs, 0)
        me = d["msgs"][0]
        if n > 0 and pname != "noask":
            d["prog"] = [{"op": "send", "to": me["he"]}, {"op": "await", "frames": 1}, {"op": "send", "to": ln}]
        sc = scenario("C18-%04d" % k, "C18", [(d, j, ln)], _single_app(), horizon_ms=100)
        sc["tags"] = ["continue", "http/1.0", "len:%d" % n, pname, "conn:%s" % cn]
        scs.append(sc)
        k += 1
    # ONE application thread serves several Expect requests in a row (the usual worker loop) -- on one connection, or
    # on several: every one of them gets its interim response exactly once
    for lens in ((5, 5), (5, 1024, 5000), (0, 5, 0, 5), (2000, 3, 3, 3)):
        for how in ("readall", "ask"):
            mk = (lambda: _with_read(respond(200, 3), sizes=[600], to_eof=True)) if how == "readall" else (lambda: _with_read(respond(200, 3), ask=2))
            # (a) one connection, each body withheld until that request's interim response has been seen
            msgs = [Msg(method="POST", framing="cl", body_len=n, expect="100-continue" if i % 2 == 0 else "100-Continue", plan=mk()) for i, n in enumerate(lens)]
            d, j, ln = conn(msgs, 0)
            prog = []
            for i, me in enumerate(d["msgs"]):
                prog.append({"op": "send", "to": me["he"]})
                if lens[i] > 0:
                    prog.append({"op": "await", "frames": 2 * i + 1})
                prog.append({"op": "send", "to": me["be"]})
            d["prog"] = prog
            sc = scenario("C18-%04d" % k, "C18", [(d, j, ln)], _single_app(), horizon_ms=100)
            sc["tags"] = ["continue", "one-thread-many-expectations", "same-connection", how, "lens:" + "+".join(map(str, lens))]
            scs.append(sc)
            k += 1
            # (b) one connection per request, one after the other
            cc = []
            for i, n in enumerate(lens):
                d, j, ln = conn([Msg(method="POST", framing="cl", body_len=n, expect="100-continue", conn="close", plan=mk())], i)
                me = d["msgs"][0]
                d["prog"] = [{"op": "sleep", "ns": (1 + 3 * i) * MS}, {"op": "send", "to": me["he"]}] + \
                            ([{"op": "await", "frames": 1}] if n > 0 else []) + [{"op": "send", "to": ln}]
                cc.append((d, j, ln))
            sc = scenario("C18-%04d" % k, "C18", cc, _single_app(), horizon_ms=100, single=False)
            sc["tags"] = ["continue", "one-thread-many-expectations", "one-connection-each", how, "lens:" + "+".join(map(str, lens))]
            scs.append(sc)
            k += 1
    return scs

def line_cuts(stream_hex, limit=4000):
    """offsets around every CRLF of the stream and in the middle of every line / data run between two
    CRLFs (inside a request line, a header line, a chunk-size line, chunk data, ...)"""
    b = bytes.fromhex(stream_hex)[:limit]
    pos = [0]
    i = b.find(b"\r\n")
    while i >= 0:
        pos.append(i)
        pos.append(i + 2)
        i = b.find(b"\r\n", i + 2)
    pos.append(len(b))
    cuts = set()
    for a, c in zip(pos, pos[1:]):
        for o in (a, a + 1, (a + c) // 2, c - 1):
            if 0 < o < len(b):
                cuts.add(o)
    return sorted(cuts)

def corpus(tier):
    """conversations covering every framing kind and error class (C13, C15)"""
    c = []
    c.append(("get2", lambda: [Msg(), Msg()], b""))
    c.append(("post-small", lambda: [Msg(method="POST", framing="cl", body_len=20, plan=_with_read(respond(200, 3), sizes=[8], to_eof=True)), Msg()], b""))
    c.append(("post-1025", lambda: [Msg(method="POST", framing="cl", body_len=1025, plan=_with_read(respond(200, 3), sizes=[500], to_eof=True)), Msg()], b""))
    c.append(("chunked", lambda: [Msg(method="POST", framing="chunked", body_len=23, chunks=[10, 1, 12], plan=_with_read(respond(200, 3), sizes=[9], to_eof=True)), Msg()], b""))
    c.append(("chunked-ext", lambda: [Msg(method="POST", framing="chunked", body_len=17, chunks=[16, 1], chunk_opts=dict(hexcase="upper", lead0=1, ext=";a=b"), plan=_with_read(respond(200, 3), sizes=[64], to_eof=True)), Msg()], b""))
    c.append(("unread-body", lambda: [Msg(method="POST", framing="cl", body_len=1500, plan=respond(200, 3)), Msg()], b""))
    c.append(("expect-eager", lambda: [Msg(method="POST", framing="cl", body_len=30, expect="100-continue", plan=_with_read(respond(200, 3), sizes=[64], to_eof=True)), Msg()], b""))
    c.append(("expect-eager-large", lambda: [Msg(method="POST", framing="cl", body_len=1100, expect="100-Continue", plan=_with_read(respond(200, 3), sizes=[4096], to_eof=True)), Msg()], b""))
    c.append(("expect-eager-unasked", lambda: [Msg(method="POST", framing="cl", body_len=12, expect="100-continue", plan=respond(200, 3)), Msg()], b""))
    c.append(("chunked-zero-mid", lambda: [Msg(method="POST", framing="chunked", body_len=8, chunks=[5, 3], plan=_with_read(respond(200, 3), sizes=[5, 0, 64], to_eof=True)), Msg()], b""))
    c.append(("chunked-zero-mid3", lambda: [Msg(method="POST", framing="chunked", body_len=30, chunks=[10], plan=_with_read(respond(200, 3), sizes=[10, 0, 10, 0, 64], to_eof=True)), Msg(), Msg()], b""))
    c.append(("unread-chunked", lambda: [Msg(method="POST", framing="chunked", body_len=120, chunks=[50, 70], plan=respond(200, 3)), Msg()], b""))
    c.append(("partread-chunked", lambda: [Msg(method="POST", framing="chunked", body_len=90, chunks=[30], plan=_with_read(respond(200, 3), sizes=[10], upto=10)), Msg(), Msg()], b""))
    c.append(("dropped-chunked", lambda: [Msg(method="POST", framing="chunked", body_len=60, chunks=[60], plan=drop()), Msg()], b""))
    # the body read with read_vectored / read_to_end (buffers that reach beyond the end of the body while the successor's
    # bytes may or may not have arrived with its tail)
    c.append(("post-2000-vectored", lambda: [Msg(method="POST", framing="cl", body_len=2000, plan=dict(respond(200, 3), read_std="vectored")), Msg()], b""))
    c.append(("post-1300-read_to_end", lambda: [Msg(method="POST", framing="cl", body_len=1300, plan=dict(respond(200, 3), read_std="read_to_end")), Msg(), Msg()], b""))
    c.append(("chunked-vectored", lambda: [Msg(method="POST", framing="chunked", body_len=700, chunks=[300, 400], plan=dict(respond(200, 3), read_std="vectored")), Msg()], b""))
    c.append(("head-close", lambda: [Msg(method="HEAD"), Msg(conn="close")], b""))
    c.append(("v10", lambda: [Msg(version="1.0", conn="keep-alive"), Msg(version="1.0")], b""))
    c.append(("bad-line", lambda: [Msg(), Msg(cls="r400", why="C10", raw_head=b"GET @URL@\r\n\r\n")], b""))
    c.append(("bad-header", lambda: [Msg(cls="r400", why="C10", raw_head=b"GET @URL@ HTTP/1.1\r\nNoColonHere\r\n\r\n")], b""))
    c.append(("expect-bad", lambda: [Msg(), Msg(cls="r417", why="C10", raw_head=b"GET @URL@ HTTP/1.1\r\nExpect: nope\r\n\r\n")], b""))
    c.append(("nonascii", lambda: [Msg(), Msg(cls="close", why="C10", raw_head=b"GET @URL@ HTTP/1.1\r\nX: \xe9\r\n\r\n")], b""))
    c.append(("long-header", lambda: [Msg(extra_headers=[("X-Long", "v" * 1100)]), Msg()], b""))
    c.append(("many-headers", lambda: [Msg(extra_headers=[("X-%d" % i, "value%d" % i) for i in range(40)])], b""))
    c.append(("big-response", lambda: [Msg(plan=respond(200, 3000)), Msg(plan=respond(200, 40000))], b""))
    return c

def fam_c13(tier, seed):
    rng = _rng("C13", seed)
    scs = []
    k = 0
    for name, mk, trailing in corpus(tier):
        d0, j0, ln = conn(mk(), 0, trailing=trailing)
        cutsets = [("whole", [])]
        structural = set()
        for m in d0["msgs"]:
            for o in (m["hs"], m["he"], m["be"]):
                for dlt in (-2, -1, 0, 1, 2):
                    if 0 < o + dlt < ln:
                        structural.add(o + dlt)
        for o in (1022, 1023, 1024, 1025, 1026, 2048):
            if 0 < o < ln:
                structural.add(o)
        if ln <= 300 or tier == "thorough":
            singles = list(range(1, ln)) if ln <= 2500 else sorted(structural)
        else:
            singles = sorted(structural)
        singles = sorted(set(singles) | set(o for o in line_cuts(d0["stream_hex"]) if 0 < o < ln))
        if tier == "quick" and len(singles) > 80:
            singles = sorted(rng.sample(singles, 80))
        for s in singles:
            cutsets.append(("split@%d" % s, [s]))
        if ln <= (400 if tier == "quick" else 3000):
            cutsets.append(("bytewise", list(range(1, ln))))
        # fine but not bytewise: a segment every 16 / every 3 bytes
        if ln <= 6000:
            cutsets.append(("every16", list(range(16, ln, 16))))
        if ln <= 1600:
            cutsets.append(("every3", list(range(3, ln, 3))))
        for r in range(6 if tier == "quick" else 50):
            kk = rng.randint(2, 8)
            cutsets.append(("multi%d" % r, sorted(rng.sample(range(1, ln), min(kk, ln - 1)))))
        for ctag, cuts in cutsets:
            d, j, ln2 = conn(mk(), 0, trailing=trailing, cuts=cuts)
            sc = scenario("C13-%04d" % k, "C13", [(d, j, ln2)], _single_app(), horizon_ms=100)
            sc["tags"] = ["segmentation", "conv:" + name, ctag]
            sc["conv"] = name
            scs.append(sc)
            k += 1
    return scs

def fam_c15(tier, seed):
    rng = _rng("C15", seed)
    scs = []
    k = 0
    for name, mk, trailing in corpus(tier):
        if name in ("big-response", "many-headers", "long-header") and tier == "quick":
            continue
        d0, j0, ln = conn(mk(), 0)
        offs = list(range(0, ln + 1))
        if (tier == "quick" and len(offs) > 40) or len(offs) > 1600:
            structural = set([0, ln])
            for m in d0["msgs"]:
                for o in (m["hs"], m["he"], m["be"]):
                    for dlt in (-1, 0, 1):
                        if 0 <= o + dlt <= ln:
                            structural.add(o + dlt)
            offs = sorted(structural | set(rng.sample(offs, 12)) | set(o for o in line_cuts(d0["stream_hex"]) if o <= ln))
            if len(offs) > 90:
                keep = set(structural)
                offs = sorted(keep | set(rng.sample(offs, 70)))
        for off in offs:
            for fault in ("half", "close", "reset"):
                d, j, ln2 = conn(mk(), 0)
                d["prog"] = ([{"op": "send", "to": off}] if off > 0 else []) + [{"op": fault}]
                # a second client arrives afterwards and must be served
                d2, j2, l2 = simple_conn(1, 1, at_ns=2 * MS)
                sc = scenario("C15-%04d" % k, "C15", [(d, j, ln2), (d2, j2, l2)], _single_app(), horizon_ms=100, single=True)
                sc["tags"] = ["vanish", "conv:" + name, "cut:%d" % off, fault]
                scs.append(sc)
                k += 1
    # the application reads the body the usual way (read_to_end / io::copy, which retry on Interrupted) and the client
    # goes away in the middle of it: the read ends (short or with an error), the request can be answered, others are served
    for tag, kw in (("cl5000", dict(framing="cl", body_len=5000)), ("cl1025", dict(framing="cl", body_len=1025)),
                    ("ch2000", dict(framing="chunked", body_len=2000, chunks=[700, 1300])), ("cl5", dict(framing="cl", body_len=5)),
                    ("cl5-expect", dict(framing="cl", body_len=5, expect="100-continue"))):
        for helper in ("read_to_end", "copy"):
            for frac in (0.0, 0.5, 0.98):
                for fault in ("half", "close"):
                    p = dict(respond(200, 4), read_std=helper)
                    d, j, ln = conn([Msg(method="POST", plan=p, **kw)], 0)
                    me = d["msgs"][0]
                    cut = me["he"] + int((me["be"] - me["he"]) * frac)
                    d["prog"] = [{"op": "send", "to": cut}, {"op": fault}]
                    d2, j2, l2 = simple_conn(1, 1, at_ns=2 * MS)
                    sc = scenario("C15-%04d" % k, "C15", [(d, j, ln), (d2, j2, l2)], _single_app(), horizon_ms=100, single=True)
                    sc["tags"] = ["vanish", "std-read-helper", helper, tag, "cut:%d" % cut, fault]
                    scs.append(sc)
                    k += 1
    # real sockets only: a storm of connections that are reset at once (or after a few bytes) -- some of the resets
    # reach the server before it has accepted the connection -- and afterwards well-behaved clients, which must be served
    for nstorm in (40, 100):
        cc = []
        for c in range(nstorm):
            raw = [b"", b"GE", b"GET /x HTTP/1.1\r\nHo"][c % 3]
            d, j, ln = conn([Msg(cls="close", why="C15", raw_head=raw)], c) if raw else conn([Msg(cls="close", why="C15", raw_head=b"G")], c)
            d["prog"] = ([{"op": "send", "to": len(raw)}] if raw else []) + [{"op": "reset"}]
            cc.append((d, j, ln))
        for c in range(nstorm, nstorm + 3):
            d, j, ln = simple_conn(c, 1, at_ns=(60 + 20 * (c - nstorm)) * MS)
            cc.append((d, j, ln))
        sc = scenario("C15-%04d" % k, "C15", cc, _single_app(), horizon_ms=400, single=True, transport="tcp")
        sc["tags"] = ["vanish", "reset-storm", "n:%d" % nstorm]
        sc["d2only"] = True
        scs.append(sc)
        k += 1
    scs += _full_head_storm("C15", 0)
    # the client goes away while responses are being written / never reads
    for size, declared in ((10, True), (3000, True), (70000, True), (5000, False)):
        for when in ("before", "during", "noread"):
            for fault in ("close", "reset"):
                p = respond(200, size, declared=declared)
                if when == "before":
                    p["delay_ns"] = 2 * MS
                d, j, ln = conn([Msg(plan=p), Msg(plan=respond(200, 5))], 0)
                if when == "before":
                    d["prog"] = [{"op": "send", "to": ln}, {"op": "sleep", "ns": 1 * MS}, {"op": fault}]
                elif when == "during":
                    d["window"] = 512
                    d["no_read"] = True
                    j["noread"] = True
                    d["prog"] = [{"op": "send", "to": ln}, {"op": "sleep", "ns": 2 * MS}, {"op": fault}]
                else:
                    d["window"] = 256
                    d["no_read"] = True
                    j["noread"] = True
                    d["prog"] = [{"op": "send", "to": ln}, {"op": "phase", "k": 1}, {"op": fault}]
                d2, j2, l2 = simple_conn(1, 1, at_ns=4 * MS)
                sc = scenario("C15-%04d" % k, "C15", [(d, j, ln), (d2, j2, l2)], [serve("recv", "spawn")], horizon_ms=100, single=True)
                sc["tags"] = ["vanish", "response-side", "size:%d" % size, when, fault]
                scs.append(sc)
                k += 1
    return scs

FAMILIES.update({"C03": fam_c03, "C09": fam_c09, "C10": fam_c10, "C11": fam_c11, "C12": fam_c12, "C13": fam_c13,
                 "C15": fam_c15, "C16": fam_c16, "C18": fam_c18})

# ------------------------------------------------------------------------------------------------
# C02: head fidelity. The valid header lines over the abstract alphabet and their reference parse
# come from TLC (specs/fn/HeadSyntax.tla via MC_Fn genC02); this concretiser maps symbols to bytes.

_SYM = {
    "l": "abcdefghijklmnopqrstuvwxyz", "U": "ABCDEFGHIJKLMNOPQRSTUVWXYZ", "d": "0123456789",
    "y": "!#$%&'*+-.^_`|~", ":": ":", "s": " ", "h": "\t", "v": "\"(),/;<=>?@[\\]{}",
}

def _concretise_line(rec, rng):
    syms = rec["line"]
    by = [rng.choice(_SYM[s]) for s in syms]
    colon = syms.index(":")
    name = "".join(by[:colon])
    raw = by[colon + 1:]
    rs = syms[colon + 1:]
    a = 0
    while a < len(rs) and rs[a] in ("s", "h"):
        a += 1
    b = len(rs)
    while b > a and rs[b - 1] in ("s", "h"):
        b -= 1
    # the slice must be exactly what the reference operator of the specification says
    assert rs[a:b] == rec["value"] and syms[:colon] == rec["name"], "concretiser disagrees with HeadSyntax!FieldValue"
    return name, "".join(raw), "".join(raw[a:b])

def fam_c02(tier, seed):
    import props, json as _json, os as _os
    rng = _rng("C02", seed)
    import vlib as _vlib
    gen = _os.path.join(_vlib.WORK, "C02gen")
    _os.makedirs(gen, exist_ok=True)
    lines_path = _os.path.join(gen, "lines.%s.ndjson" % tier)
    props.fn_tlc("genC02", tier, lines_path, "/dev/null", "fn_genC02")
    recs = [_json.loads(l) for l in open(lines_path)]
    rng.shuffle(recs)
    methods = ["GET", "HEAD", "POST", "PUT", "DELETE", "CONNECT", "OPTIONS", "TRACE", "PATCH",
               "PURGE", "get", "Get", "M-SEARCH", "X!#$%&'*+-.^_`|~09", "GETX", "P"]
    suffixes = ["", "/a/b?x=1&y=2", "?q=%7Euser/caf%C3%A9", "/;p=1,2:3@4=5", "/~!$&'()*+,;=:@[]", "//double//slash", "/" + "a" * 1100, "?" + "k=v&" * 300]
    scs = []
    k = 0
    per_conn = 150
    msgs = []
    def flush(msgs, k, extra_tags):
        d, j, ln = conn(msgs, 0)
        sc = scenario("C02-%04d" % k, "C02", [(d, j, ln)], _single_app(), horizon_ms=200)
        sc["tags"] = ["head-fidelity"] + extra_tags
        return sc
    i = 0
    while i < len(recs):
        nh = rng.choice([1, 1, 2, 3])
        group = recs[i:i + nh]
        i += nh
        hdrs = []
        for r in group:
            name, rawv, val = _concretise_line(r, rng)
            hdrs.append((name, rawv, val))
        ver = rng.choice(["1.1", "1.1", "1.0"])
        meth = rng.choice(methods)
        m = Msg(method=meth, version=ver, target_suffix=rng.choice(suffixes) if rng.random() < 0.3 else "")
        # explicit header list: raw value on the wire, stripped value expected
        wire = [(n, rv) for n, rv, _ in hdrs]
        if ver == "1.0":
            wire.append(("Connection", "keep-alive"))
        m.headers = wire
        m.raw_head = None
        # the line on the wire is exactly the line of the specification: nothing but the colon between name and raw
        # value (the optional whitespace is part of the generated raw value)
        m.hsep = ":"
        msgs.append(m)
        if len(msgs) >= per_conn:
            scs.append(flush(msgs, k, ["generated-lines"]))
            k += 1
            msgs = []
    if msgs:
        scs.append(flush(msgs, k, ["generated-lines"]))
        k += 1
    # number of header fields 0..64, duplicates, long names / values / heads beyond the 1 KiB buffer
    special = []
    for n in (0, 1, 2, 17, 63, 64):
        special.append(Msg(headers=[("X-H%d" % (i % 5), "v%d" % i) for i in range(n)]))
    special.append(Msg(headers=[("Dup", "a"), ("dup", "b"), ("DUP", ""), ("Dup", "a")]))
    special.append(Msg(headers=[("X-Long", "v" * 1100), ("Y", "z")]))
    special.append(Msg(headers=[("N" * 300, "x"), ("Host", "h")]))
    special.append(Msg(headers=[("A%d" % i, "x" * 200) for i in range(40)]))
    special.append(Msg(headers=[("Host", "a:b:c"), ("X", "in  ner\t ws"), ("E", "")]))
    for meth in methods:
        special.append(Msg(method=meth, headers=[("Host", "x")]))
    for sfx in suffixes:
        special.append(Msg(target_suffix=sfx, headers=[("Host", "x")]))
    scs.append(flush(special, k, ["special"]))
    k += 1
    # no whitespace (or a tab) after the name's colon, and a colon followed by a space further inside the value
    tight = []
    for hs in ([("X-Time", "12: 30")], [("X-Note", "\tsee: below")], [("Host", "verif"), ("X-A", "b: c: d"), ("X-E", ": x")],
               [("X-Url", "http://h: 80/"), ("Y", "1")], [("X-T", "\t a: b \t")]):
        mm = Msg(headers=hs)
        mm.hsep = ":"
        tight.append(mm)
    scs.append(flush(tight, k, ["special", "colon-space-inside-value"]))
    k += 1
    # the headers the library itself interprets, in spellings that keep their meaning: what it hands over is
    # still what was sent, not a normalised form
    interp = [
        Msg(headers=[("Host", "verif"), ("Connection", "Keep-Alive")]),
        Msg(headers=[("Host", "verif"), ("Connection", "KEEP-ALIVE, Foo")]),
        Msg(version="1.0", headers=[("Host", "verif"), ("Connection", "Keep-Alive")]),
        Msg(method="POST", framing="chunked", body_len=7, chunks=[4], headers=[("Host", "verif"), ("Transfer-Encoding", "Chunked")]),
        Msg(method="POST", framing="chunked", body_len=3, headers=[("Host", "verif"), ("TRANSFER-ENCODING", "CHUNKED")]),
        Msg(method="POST", framing="cl", body_len=5, headers=[("Host", "verif"), ("Content-Length", "05")]),
        Msg(method="POST", framing="cl", body_len=3, expect="100-Continue", headers=[("Host", "verif"), ("Expect", "100-Continue"), ("content-length", "3")]),
        Msg(headers=[("TE", "Trailers, Deflate;q=0.5"), ("Content-Type", "Text/Plain; Charset=UTF-8"), ("Upgrade", "WebSocket"), ("Host", "Verif.Example:80")]),
        Msg(method="POST", framing="cl", body_len=2000, headers=[("Host", "verif"), ("CONTENT-LENGTH", "2000"), ("Connection", "Keep-Alive")]),
        Msg(method="POST", framing="chunked", body_len=6, headers=[("Host", "verif"), ("Content-Length", "6"), ("Transfer-Encoding", "chunked")]),
        Msg(method="POST", framing="chunked", body_len=4, headers=[("Transfer-Encoding", "chunked"), ("Host", "verif"), ("content-length", "4"), ("X-After", "1")]),
        Msg(method="POST", framing="chunked", body_len=9, chunks=[3], headers=[("CONTENT-LENGTH", "9"), ("Content-Length", "9"), ("TRANSFER-ENCODING", "Chunked"), ("Host", "verif")]),
        Msg(headers=[("Host", "verif"), ("Connection", "CLOSE")]),
    ]
    scs.append(flush(interp, k, ["interpreted-headers"]))
    k += 1
    interp2 = [
        Msg(version="1.0", headers=[("Host", "verif"), ("Connection", "KEEP-ALIVE")]),
        Msg(headers=[("Host", "verif"), ("Connection", "Keep-Alive"), ("Accept", "*/*")]),
        Msg(headers=[("Host", "verif"), ("Connection", "foo, Close")]),
    ]
    scs.append(flush(interp2, k, ["interpreted-headers"]))
    k += 1
    # connections that break off in the middle of a head line, then -- served by the same pool threads -- connections
    # with complete requests: what those deliver is exactly what was sent on THEM
    for nab in (4, 8):
        cc = []
        partials = [b"GE", b"GET /x HT", b"GET /y HTTP/1.1\r\nHo", b"POST /z HTTP/1.1\r\nContent-Len", b"G", b"GET /w HTTP/1.1\r\nHost: a\r\nX-Cut: abc"]
        for c in range(nab):
            d, j, ln = conn([Msg(cls="close", why="C15", raw_head=partials[c % len(partials)])], c)
            d["prog"] = [{"op": "send", "to": ln}, {"op": "close" if c % 2 == 0 else "half"}]
            cc.append((d, j, ln))
        for c in range(nab, nab + 12):
            m = Msg(method=methods[c % len(methods)], headers=[("Host", "verif"), ("X-Conn", "c%d" % c), ("Accept", "*/*;q=0.%d" % (c % 9))])
            m2 = Msg(headers=[("Host", "verif"), ("X-Second", "yes")])
            d, j, ln = conn([m, m2], c)
            d["prog"] = [{"op": "sleep", "ns": 2 * MS + (c % 3) * 300_000}, {"op": "send", "to": ln}]
            cc.append((d, j, ln))
        sc = scenario("C02-%04d" % k, "C02", cc, [serve("recv", "inline"), serve("recv", "inline")], horizon_ms=200, single=False)
        sc["tags"] = ["head-fidelity", "after-aborted-neighbours", "aborted:%d" % nab]
        scs.append(sc)
        k += 1
    # the wire form of Msg.build writes "name: value"; values that start with OWS symbols are already
    # in rawv, so the single space after the colon is just one more optional whitespace
    return scs

FAMILIES["C02"] = fam_c02

# ------------------------------------------------------------------------------------------------
# C14: adversarial heads and bodies (class product with boundary values; seeded bytes inside classes)

def fam_c14(tier, seed):
    rng = _rng("C14", seed)
    scs = []
    k = 0
    def add(msgs_or_raw, tags, prog=None, trailing=b"", plan_first=None):
        nonlocal k
        d, j, ln = conn(msgs_or_raw, 0, trailing=trailing)
        if prog is not None:
            d["prog"] = prog(d, ln)
        sc = scenario("C14-%04d" % k, "C14", [(d, j, ln)], [serve("recv", "spawn")], horizon_ms=100, transport="tcp")
        sc["tags"] = ["adversarial"] + tags
        sc["d2only"] = True
        scs.append(sc)
        k += 1
    handlers = {
        "none-respond": lambda: respond(200, 3),
        "none-drop": lambda: drop(),
        "none-writer": lambda: writer([4], flush="last"),
        "some-respond": lambda: _with_read(respond(200, 3), sizes=[2], upto=2),
        "some-drop": lambda: _with_read(drop(), sizes=[2], upto=2),
        "all-respond": lambda: _with_read(respond(200, 3), sizes=[4096], to_eof=True),
    }
    # declared Content-Length classes x bytes actually sent x handler
    cls = [("0", 0), ("1024", 1024), ("1025", 1025), ("1e7", 10**7), ("1e14", 10**14), ("isize+1", 2**63), ("usize", 2**64 - 1),
           ("usize+1", 2**64), ("30digits", 10**29)]
    for (ctag, n), sent, h in itertools.product(cls, ("none", "three", "all"), sorted(handlers)):
        if sent == "all" and n > 2000:
            continue
        if h.startswith("all") and (sent != "all"):
            continue   # reading a body that never comes only ends at teardown; covered by "some"
        if h.startswith("some") and sent == "none":
            continue
        if tier == "quick" and rng.random() > 0.7:
            continue
        nsent = {"none": 0, "three": min(3, n), "all": n}[sent]
        raw = ("POST @URL@ HTTP/1.1\r\nHost: x\r\nContent-Length: %d\r\n\r\n" % n).encode()
        ok = n < 2**64
        body = req_body_bytes(0, 0, min(n, 5000))
        m = Msg(method="POST", framing="cl", body_len=min(n, 5000), plan=handlers[h]()) if ok and n <= 5000 else None
        if m is not None:
            def prog(d, ln, nsent=nsent, m=None):
                he = d["msgs"][0]["he"]
                return [{"op": "send", "to": he + nsent}]
            add([m, Msg()] if nsent == n else [m], ["content-length:" + ctag, "sent:" + sent, h], prog=prog)
        else:
            # lengths the harness cannot send in full: the ledger body is just what is sent
            mm = Msg(method="POST", cls=("ok" if ok else "r400"), why="C16", raw_head=raw, plan=handlers[h]())
            mm.body_len = 0
            d, j, ln = conn([mm], 0, trailing=body[:nsent])
            if ok:
                j["msgs"][0].update({"bk": "large", "blen": nsent, "be": ln + 10**9})
                d["msgs"][0]["body_hex"] = body[:nsent].hex()
                d["msgs"][0]["exp"] = {"method": "POST", "url": "/c0m0", "ver": [1, 1], "headers": [["Host", "x"], ["Content-Length", str(n)]], "body_length": None}
                d["msgs"][0]["exp"] = None
            sc = scenario("C14-%04d" % k, "C14", [(d, j, ln + nsent)], [serve("recv", "spawn")], horizon_ms=100, transport="tcp")
            sc["tags"] = ["adversarial", "content-length:" + ctag, "sent:" + sent, h, "declared-beyond-sent"]
            sc["d2only"] = True
            scs.append(sc)
            k += 1
    # chunk size lines
    for ctag, line in (("1", b"1"), ("ffff", b"ffff"), ("16f", b"f" * 16), ("17hex", b"1" + b"0" * 16), ("neg", b"-5"), ("empty", b""),
                       ("longline", b"a" * 70000), ("nul", b"\x00\x01"), ("hi", b"\xff\xfe")):
        for h in ("none-respond", "some-respond", "none-drop", "all-respond"):
            if tier == "quick" and rng.random() > 0.6:
                continue
            raw = b"POST @URL@ HTTP/1.1\r\nHost: x\r\nTransfer-Encoding: chunked\r\n\r\n"
            mm = Msg(method="POST", cls="ok", raw_head=raw, plan=handlers[h]())
            d, j, ln = conn([mm], 0, trailing=line + b"\r\nab")
            j["msgs"][0].update({"bk": "chunked", "blen": 10**9, "be": ln + 10**9})
            d["msgs"][0]["exp"] = None
            d["msgs"][0]["body_hex"] = ""
            sc = scenario("C14-%04d" % k, "C14", [(d, j, ln)], [serve("recv", "spawn")], horizon_ms=100, transport="tcp")
            sc["tags"] = ["adversarial", "chunk-size:" + ctag, h]
            sc["d2only"] = True
            scs.append(sc)
            k += 1
    # headers the library itself interprets (when parsing or when answering), with odd values
    odd = ["", ";", ";q", ";q=", "q=", ",", ",,,", ";;;", "chunked;", "chunked;q", "chunked; q=", "x;q=1e400", "x;q=-0", "x;q=NaN",
           "a" * 5000, "\"", "=", " ", "chunked,", ",chunked", "identity;q=0.0000000000000000000001", "x;y;z;q;=", "\t", "100-continue;", "%00"]
    # long weighted lists whose weights are not all numbers (the order of such a list is not a total order)
    lrng = _rng("C14/lists", seed)
    weights = ["NaN", "nan", "1", "0", "2", "0.5", "0.357", "inf", "-1", "1e400", "-NaN"]
    long_lists = []
    for n in (21, 50, 120):
        for _ in range(3):
            long_lists.append(", ".join("c%d;q=%s" % (i, lrng.choice(weights if lrng.random() < 0.6 else ["NaN"])) for i in range(n)))
    long_lists.append(", ".join(["chunked;q=NaN", "identity;q=NaN"] * 30))
    for hname in ("TE", "Expect", "Connection", "Transfer-Encoding", "Upgrade", "Content-Type", "Accept", "Host", "Content-Encoding"):
        for val in odd + (long_lists if hname in ("TE", "Accept") else []):
            if tier == "quick" and rng.random() > 0.45 and hname not in ("TE",):
                continue
            if len(val) > 100 and val in long_lists:
                val_tag = "weighted-list:%d" % (val.count(",") + 1)
            else:
                val_tag = None
            for h in ("none-respond", "none-drop"):
                if h == "none-drop" and rng.random() > 0.4:
                    continue
                raw = ("GET @URL@ HTTP/1.1\r\nHost: x\r\n%s: %s\r\n\r\n" % (hname, val)).encode("latin1")
                mm = Msg(cls="close", why="C14", raw_head=raw, plan=handlers[h]())
                d, j, ln = conn([mm], 0)
                # whatever the class of this head is, C14 only asks for no panic / abort / huge allocation;
                # the request, if delivered, is answered according to its plan
                d["msgs"][0]["plan"] = handlers[h]()
                d["prog"] = [{"op": "send", "to": ln}, {"op": "sleep", "ns": 20 * MS}, {"op": "close"}]
                sc = scenario("C14-%04d" % k, "C14", [(d, j, ln)], [serve("recv", "spawn")], horizon_ms=100, transport="tcp")
                sc["tags"] = ["adversarial", "interpreted-header:%s" % hname, "value:%r" % val[:20], h] + ([val_tag, "non-numeric-weights"] if val_tag else [])
                sc["d2only"] = True
                sc["judge"]["resonly"] = True
                scs.append(sc)
                k += 1
    # the shapes of the application's answer: method x version x TE x declared / undeclared length x status class
    # (answering never panics, whatever framing the request forces)
    for meth, (ver, te), (rtag, rplan) in itertools.product(
            ("GET", "HEAD", "POST"),
            (("1.1", None), ("1.0", None), ("1.1", "identity"), ("1.1", "chunked"), ("1.1", "chunked;q=0, identity"), ("1.0", "chunked")),
            (("undeclared5", lambda: respond(200, 5, declared=False)), ("undeclared0", lambda: respond(200, 0, declared=False)),
             ("undeclared40000", lambda: respond(200, 40000, declared=False)), ("declared0", lambda: respond(200, 0)),
             ("declared40000", lambda: respond(200, 40000)), ("s204-undeclared", lambda: respond(204, 5, declared=False)),
             ("s304-undeclared", lambda: respond(304, 5, declared=False)), ("s100-undeclared", lambda: respond(100, 5, declared=False)))):
        if tier == "quick" and rng.random() > 0.5:
            continue
        hs = [("Host", "x")] + ([("TE", te)] if te else []) + ([("Connection", "keep-alive")] if ver == "1.0" else [])
        mm = Msg(method=meth, version=ver, headers=hs, plan=rplan())
        d, j, ln = conn([mm], 0)
        d["prog"] = [{"op": "send", "to": ln}, {"op": "sleep", "ns": 20 * MS}, {"op": "close"}]
        sc = scenario("C14-%04d" % k, "C14", [(d, j, ln)], [serve("recv", "spawn")], horizon_ms=100, transport="tcp")
        sc["tags"] = ["adversarial", "answer-shape", meth, "v" + ver, "te:%s" % te, rtag]
        sc["d2only"] = True
        sc["judge"]["resonly"] = True
        scs.append(sc)
        k += 1
    # many headers / long lines / odd bytes at head positions / truncation
    heads = []
    for n in (0, 100, 5000):
        heads.append(("headers:%d" % n, b"GET @URL@ HTTP/1.1\r\n" + b"".join(b"X-%d: v\r\n" % i for i in range(n)) + b"\r\n", "ok"))
    for ln_ in (10, 2**20, 2**23):
        if tier == "quick" and ln_ > 2**20:
            continue
        heads.append(("line:%d" % ln_, b"GET @URL@ HTTP/1.1\r\nX-Long: " + b"v" * ln_ + b"\r\n\r\n", "ok"))
        heads.append(("target:%d" % ln_, b"GET @URL@" + b"a" * ln_ + b" HTTP/1.1\r\nHost: x\r\n\r\n", "ok"))
        heads.append(("nocrlf:%d" % ln_, b"G" * ln_, "trunc"))
    for pos, byte in itertools.product(("method", "target", "version", "name", "value", "eol"), (b"\x00", b"\x07", b"\x7f", b"\x80", b"\xff")):
        base = {"method": b"G%sT @URL@ HTTP/1.1\r\nHost: x\r\n\r\n", "target": b"GET @URL@%s HTTP/1.1\r\nHost: x\r\n\r\n",
                "version": b"GET @URL@ HTTP/1.%s\r\nHost: x\r\n\r\n", "name": b"GET @URL@ HTTP/1.1\r\nHo%sst: x\r\n\r\n",
                "value": b"GET @URL@ HTTP/1.1\r\nHost: x%sy\r\n\r\n", "eol": b"GET @URL@ HTTP/1.1\r%s\nHost: x\r\n\r\n"}[pos]
        heads.append(("byte:%s:%02x" % (pos, byte[0]), base.replace(b"%s", byte), "any"))
    # every version token the request line accepts or refuses, crossed with heads that are answered by the library itself
    # (400 / 417 / 505 are printed for a request of THAT version) or by the application (respond / drop)
    for ver in ("0.9", "1.0", "1.1", "1.2", "2.0", "3.0", "9.9", "0.0"):
        for htag, hdrs in (("plain", "Host: x\r\n"), ("no-colon", "Host x\r\n"), ("cl-overflow", "Content-Length: 99999999999999999999999\r\n"),
                           ("cl-alpha", "Content-Length: abc\r\n"), ("expect-unknown", "Expect: nonsense\r\n"), ("expect-100", "Expect: 100-continue\r\nContent-Length: 0\r\n"),
                           ("ws-name", " Host: x\r\n"), ("te-weights", "TE: chunked;q=0.5, identity;q=NaN\r\n"), ("close", "Connection: close\r\n"),
                           ("body", "Content-Length: 3\r\n\r\nabc"), ("chunked", "Transfer-Encoding: chunked\r\n\r\n3\r\nabc\r\n0\r\n")):
            for meth in ("GET", "HEAD"):
                tail = b"" if htag in ("body", "chunked") else b"\r\n"
                if htag == "chunked":
                    tail = b"\r\n"
                heads.append(("version:%s:%s:%s" % (ver, htag, meth), ("%s @URL@ HTTP/%s\r\n%s" % (meth, ver, hdrs)).encode() + tail, "any"))
    # thousands of heads on one connection (every rejected or answered request must leave the thread's stack as it was)
    for tag, one in (("v2.0", b"GET /x HTTP/2.0\r\nHost: x\r\n\r\n"), ("v3.0-body", b"POST /x HTTP/3.0\r\nContent-Length: 2\r\n\r\nab"),
                     ("get", b"GET /c0m0 HTTP/1.1\r\nHost: x\r\n\r\n"), ("head", b"HEAD /c0m0 HTTP/1.1\r\nHost: x\r\n\r\n")):
        # (answered requests are several trace events each: their count stays moderate; rejected ones leave no events)
        for n in ((4000,) if tier == "quick" else ((4000, 60000) if tag.startswith("v") else (4000, 9000))):
            heads.append(("many-heads:%s:%d" % (tag, n), one * n + b"GET @URL@ HTTP/1.1\r\nHost: x\r\n\r\n", "ok"))
    # the client is gone (reset) by the time the handler of an Expect: 100-continue request first touches the body: the
    # interim response cannot be written; reading, answering or dropping the request afterwards must not panic
    for h, pl in (("all-respond", lambda: _with_read(respond(200, 3), sizes=[4096], to_eof=True)),
                  ("all-writer", lambda: _with_read(writer([4], flush="last"), sizes=[4096], to_eof=True)),
                  ("all-drop", lambda: _with_read(drop(), sizes=[4096], to_eof=True)),
                  ("std-respond", lambda: dict(respond(200, 3), read_std="read_to_end")),
                  ("some-respond-big", lambda: _with_read(respond(200, 70000), sizes=[2], upto=2))):
        for n, lead, fault in itertools.product((5, 3000), (0, 1), ("reset", "close")):
            p = pl()
            p["delay_ns"] = 6 * MS
            m = Msg(method="POST", framing="cl", body_len=n, expect="100-continue", plan=p)
            msgs = ([Msg()] if lead else []) + [m]
            def prog(d, ln, lead=lead, fault=fault):
                he = d["msgs"][lead]["he"]
                return [{"op": "send", "to": he}, {"op": "sleep", "ns": 2 * MS}, {"op": fault}]
            add(msgs, ["gone-before-interim", h, "n:%d" % n, "lead:%d" % lead, fault], prog=prog)
    for tag, raw, kind in heads:
        # outcome classes differ (delivered / 400 / close); C14 only looks at panics, aborts and allocation,
        # so the message is described as a plain close-class message and the connection is cut afterwards
        mm = Msg(cls="close", why="C14", raw_head=raw)
        d, j, ln = conn([mm], 0)
        d["prog"] = [{"op": "send", "to": ln}, {"op": "sleep", "ns": (500 if tag.startswith("many-heads") else 20) * MS}, {"op": "close"}]
        sc = scenario("C14-%04d" % k, "C14", [(d, j, ln)], [serve("recv", "inline" if tag.startswith("many-heads") else "spawn")], horizon_ms=100, transport="tcp")
        sc["tags"] = ["adversarial", tag]
        sc["d2only"] = True
        sc["judge"]["resonly"] = True
        scs.append(sc)
        k += 1
        if kind != "trunc" and len(raw) < 5000:
            for cut in sorted(set([1, len(raw) // 2, len(raw) - 3, len(raw) - 1])):
                d, j, ln = conn([Msg(cls="close", why="C14", raw_head=raw)], 0)
                d["prog"] = [{"op": "send", "to": cut}, {"op": "sleep", "ns": 5 * MS}, {"op": rng.choice(["close", "half", "reset"])}]
                sc = scenario("C14-%04d" % k, "C14", [(d, j, ln)], [serve("recv", "spawn")], horizon_ms=100, transport="tcp")
                sc["tags"] = ["adversarial", tag, "truncated:%d" % cut]
                sc["d2only"] = True
                sc["judge"]["resonly"] = True
                scs.append(sc)
                k += 1
    scs += _full_head_storm("C14", 0)
    return scs

FAMILIES["C14"] = fam_c14
